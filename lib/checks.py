"""Per-property checks. Each function takes the tier and returns the exit code."""
import json
import os
import subprocess
import sys
import tempfile

import core
from core import Verdict, Infra

CHECKS = {}


def check(pid):
    def deco(fn):
        CHECKS[pid] = fn
        return fn
    return deco


def write_graph(name, r):
    """Compact the state graph TLC printed (EmitState/EmitEdge) into gen/<name>.graph.json."""
    os.makedirs(core.GEN, exist_ok=True)
    path = os.path.join(core.GEN, name + ".graph.json")
    recs = core.behaviours(r.lines)
    ids, states = {}, []
    for x in recs:
        if "S" in x:
            ids[x["S"]] = len(states)
            states.append({"id": x["S"], "p": x["P"], "out": []})
    init = None
    nedges = 0
    for x in recs:
        if "s" in x:
            if x["s"] not in ids or x["t"] not in ids:
                raise Infra("graph %s: edge refers to unknown state" % name)
            states[ids[x["s"]]]["out"].append({"to": ids[x["t"]], "a": x["a"], "r": x["r"]})
            nedges += 1
    for x in recs:
        if x.get("I"):
            init = ids[x["S"]]
    if init is None:
        # the initial state is the first one TLC printed
        init = 0
    with open(path, "w") as f:
        json.dump({"init": init, "states": states}, f)
    return path, len(states), nedges


def graph_walks(v, model, gpath, modes, extra=None):
    """Run graphwalk in several modes over all cores; account results into the verdict."""
    total = {"evaluations": 0, "steps": 0}
    for mode in modes:
        args = ["graphwalk", "-model", model, "-graph", gpath] + (extra or [])
        n = core.NCPU
        procs = []
        exe = core.build_harness()
        for i in range(n):
            a = [exe] + args + ["-mode", mode["mode"], "-shard", str(i), "-nshard", str(n)]
            for k, val in mode.items():
                if k != "mode":
                    a += ["-" + k, str(val)]
            procs.append(subprocess.Popen(a, stdout=subprocess.PIPE, stderr=subprocess.PIPE, text=True, env=core.goenv()))
        results = []
        for p in procs:
            try:
                out, err = p.communicate(timeout=mode.get("timeout", 1500))
            except subprocess.TimeoutExpired:
                for q in procs:
                    q.kill()
                raise Infra("graphwalk %s timed out" % mode)
            if p.returncode != 0:
                raise Infra("graphwalk failed: %s" % err[-2000:])
            results.append(json.loads(out.strip().splitlines()[-1]))
        m = core.merge(results)
        v.cov["parts"]["%s:%s" % (os.path.basename(gpath).split(".")[0], json.dumps(mode, sort_keys=True))] = {
            "paths": m.get("evaluations", 0), "steps": m.get("steps", 0), "mismatching": m.get("nmismatch", 0)}
        total["evaluations"] += m.get("evaluations", 0)
        total["steps"] += m.get("steps", 0)
        v.mismatches(m.get("mismatches"), m.get("counts"))
        if m.get("nmismatch", 0) > len(m.get("mismatches") or []):
            v.notes.append("%d mismatching paths in mode %s (first %d kept)" % (m["nmismatch"], mode["mode"], len(m["mismatches"])))
    v.cov["evaluations"] += total["evaluations"]
    v.cov["traces_validated_against_impl"] += total["evaluations"]
    return total


def hist_replay(v, model, behs, label, extra=None):
    res = core.merge(core.run_sharded(["hist", "-model", model] + (extra or []), behs))
    v.cov["parts"][label] = {"behaviours": res.get("evaluations", 0), "steps": res.get("steps", 0),
                             "mismatching": res.get("nmismatch", 0)}
    v.cov["evaluations"] += res.get("evaluations", 0)
    v.cov["traces_validated_against_impl"] += res.get("evaluations", 0)
    v.mismatches(res.get("mismatches"), res.get("counts"))
    v.add_samples(res.get("samples") or [], 2)
    return res


# ------------------------------------------------------------------------------------------ C06

TOPICREL_CFG = """SPECIFICATION Spec
CONSTANTS
 Alpha <- MCAlpha
 NameAlpha <- MCNameAlpha
 MixedLevels <- MCMixed
 MaxLen = %d
INVARIANTS RelOK Emit
"""

TOPICS_GRAPH_CFG = """SPECIFICATION Spec
CONSTANTS
 Whos = %(whos)s
 Filters <- %(filters)s
 Names <- %(names)s
 MixedLevels = {}
 MaxQos = %(maxqos)d
 QosReq = %(qosreq)s
 Payloads = %(payloads)s
 RetQos = %(retqos)s
 MaxSteps = 0
 Hist = FALSE
 WithNil = %(withnil)s
INVARIANTS TypeOK EmitState
PROPERTIES StepProps
ACTION_CONSTRAINT EmitEdge
VIEW AbsView
"""

TOPICS_SIM_CFG = """SPECIFICATION Spec
CONSTANTS
 Whos = {"p1", "p2", "s:x", "i:7"}
 Filters <- SFilters
 Names <- SNames
 MixedLevels <- SMixed
 MaxQos = %(maxqos)d
 QosReq = {0, 1, 2, 3}
 Payloads = {"x", "yy", "zzz"}
 RetQos = {0, 1, 2}
 MaxSteps = %(depth)d
 Hist = TRUE
 WithNil = TRUE
INVARIANTS EmitHist
"""


@check("C06")
def c06(tier):
    v = Verdict("C06", tier)
    thorough = tier == "thorough"
    # part 1: the complete relation
    maxlen = 4
    r = core.cached_tlc("topicrel%d" % maxlen, "MCTopicRel", TOPICREL_CFG % maxlen, workers=1, timeout=900)
    v.tlc("TopicRel(MaxLen=%d)" % maxlen, r)
    rows = core.behaviours(r.lines)
    names = [x for x in rows if "names" in x]
    frows = [x for x in rows if "f" in x]
    if len(names) != 1:
        raise Infra("TopicRel: names record missing")
    exe_items = frows
    results = []
    n = core.NCPU
    tmp = tempfile.mkdtemp(prefix="verif-c06-")
    try:
        procs = []
        for i in range(n):
            fn = os.path.join(tmp, "rel%d.ndjson" % i)
            with open(fn, "w") as f:
                f.write(json.dumps(names[0]) + "\n")
                for x in exe_items[i::n]:
                    f.write(json.dumps(x) + "\n")
            procs.append(subprocess.Popen([core.build_harness(), "topicsrel", "-in", fn], stdout=subprocess.PIPE,
                                          stderr=subprocess.PIPE, text=True, env=core.goenv()))
        for p in procs:
            out, err = p.communicate(timeout=900)
            if p.returncode != 0:
                raise Infra("topicsrel failed: %s" % err[-2000:])
            results.append(json.loads(out.strip().splitlines()[-1]))
    finally:
        import shutil
        shutil.rmtree(tmp, ignore_errors=True)
    m = core.merge(results)
    v.cov["parts"]["relation"] = {"filters": len(frows), "valid_filters": sum(1 for x in frows if x["valid"]),
                                  "names": len(names[0]["names"]), "pairs": m.get("distinct", 0),
                                  "lookups": m.get("evaluations", 0), "mismatching": m.get("nmismatch", 0)}
    v.cov["evaluations"] += m.get("evaluations", 0)
    v.cov["distinct_nontrivial"] += m.get("distinct", 0)
    v.cov["traces_validated_against_impl"] += len(frows)
    v.add_samples(m.get("samples") or [], 2)
    v.mismatches(m.get("mismatches"), m.get("counts"))
    # part 2: histories over the state graph of small configurations
    graphs = [
        ("topics-subs", dict(whos='{"p1", "s:x"}', filters="GFilters3" if not thorough else "GFilters", names="GNames",
                             maxqos=2, qosreq="{0, 1}", payloads="{}", retqos="{}", withnil="FALSE"),
         [dict(mode="paths", depth=4 if not thorough else 4), dict(mode="cover"), dict(mode="random", walks=40, len=200, seed=core.seed())]),
        ("topics-multi", dict(whos='{"p1", "p2", "s:x"}', filters="MFilters", names="MNames", maxqos=2, qosreq="{0, 1, 2}",
                              payloads="{}", retqos="{}", withnil="FALSE"),
         [dict(mode="paths", depth=4), dict(mode="cover"), dict(mode="random", walks=40, len=200, seed=core.seed())]),
        ("topics-ret", dict(whos='{"i:7"}', filters="RFilters", names="RNames", maxqos=1, qosreq="{2}",
                            payloads='{"x", "yy"}', retqos="{0, 2}", withnil="TRUE"),
         [dict(mode="paths", depth=3 if not thorough else 4), dict(mode="cover"), dict(mode="random", walks=40, len=200, seed=core.seed())]),
    ]
    for name, consts, modes in graphs:
        cfg = TOPICS_GRAPH_CFG % consts
        r = core.cached_tlc(name + ("-t" if thorough else "-q"), "MCTopics", cfg, workers=1, timeout=1200)
        v.tlc(name, r)
        gpath, ns, ne = write_graph(name + ("-t" if thorough else "-q"), r)
        v.cov["parts"][name + ":graph"] = {"states": ns, "edges": ne}
        v.cov["distinct_nontrivial"] += ne
        graph_walks(v, "topics", gpath, modes, ["-maxqos", str(consts["maxqos"])])
    # part 2b: linearizability under concurrency (direction B): goroutines hammer one real store, TLC places the
    # unlogged linearization points
    ntr = 100 if not thorough else 800
    tmp = tempfile.mkdtemp(prefix="verif-c06-")
    try:
        tf = os.path.join(tmp, "trace.ndjson")
        p = core.run_harness(["topicslin", "-seed", str(core.seed()), "-traces", str(ntr), "-goroutines", "6", "-calls", "20", "-out", tf], timeout=600)
        if p.returncode != 0:
            err = p.stderr or ""
            if ("panic:" in err or "fatal error:" in err) and "go-mqtt/topics" in err:
                v.mismatch({"what": "the topic store crashed under concurrent use: %s" % " | ".join([l for l in err.splitlines() if l.strip()][:3])[:400],
                            "replay": {"seed": core.seed()}})
                text = ""
            else:
                raise Infra("topicslin failed: %s" % err[-1500:])
        else:
            text = open(tf).read()
    finally:
        import shutil
        shutil.rmtree(tmp, ignore_errors=True)
    if text:
        cfg = "SPECIFICATION Spec\nCONSTANTS MixedLevels = {}\nCONSTRAINT HighWater\nPOSTCONDITION Accepted\n"
        ok, matched, reports, why = validate_trace(v, "TopicsLinTrace", cfg, text, "TopicsLinTrace", "topic store", dfs=True, highwater=True)
        lines = text.splitlines()
        v.cov["parts"]["linearizability(recorded)"] = {"traces": ntr, "events": len(lines), "accepted": ok}
        v.cov["traces_validated_against_impl"] += ntr
        v.cov["evaluations"] += len(lines)
        if not ok:
            v.mismatch({"what": "a recorded concurrent history of the topic store is not linearizable with respect to the Topics specification (%s)" % why,
                        "replay": {"seed": core.seed(), "traces": ntr, "longest_explained_prefix": matched,
                                   "events_around": lines[max(0, matched - 8):matched + 2]}})
    # part 3: long random histories over a large vocabulary (TLC simulation)
    nsim, depth = (20, 60) if not thorough else (200, 80)   # per worker, 8 workers
    for maxqos in (2, 1):
        r = core.run_tlc("MCTopics", TOPICS_SIM_CFG % dict(maxqos=maxqos, depth=depth), workers=8, timeout=900,
                         simulate=nsim if maxqos == 2 else max(2, nsim // 4), depth=depth + 2, tlc_seed=core.seed())
        v.tlc("topics-sim-maxqos%d" % maxqos, r)
        behs = core.behaviours(r.lines)
        if not behs:
            raise Infra("simulation produced no behaviours")
        hist_replay(v, "topics", behs, "simulation(maxqos=%d)" % maxqos, ["-maxqos", str(maxqos)])
    v.cov["rule"] = ("relation: every (filter, name) pair over levels {a,b,'',+,#,a+,#b} up to 4 levels, both look-up directions, "
                     "fresh store per pair; histories: every path up to the stated depth, a transition cover and seeded random walks "
                     "through the TLC-generated state graph of Topics for two small vocabularies; simulation: TLC -simulate "
                     "histories over 13 filters / 8 names / 4 subscribers. distinct_nontrivial = (filter,name) pairs + graph edges")
    v.cov["exhaustive"] = True
    v.assumptions += ["level alphabet of two literals; subscriber identities limited to pointer, string and int",
                      "topic names and filters starting with '$' are outside the property"]
    return v.finish()


# ------------------------------------------------------------------------------------------ C13

ACKQ_CFG = """SPECIFICATION %(spec)s
CONSTANTS
 Ids = %(ids)s
 AckIds = %(ackids)s
 Kinds = %(kinds)s
 Tags = %(tags)s
 AckTags = %(acktags)s
 AckTypes = %(acktypes)s
 WithPing = %(ping)s
 WithBad = %(bad)s
 MaxLen = %(maxlen)d
 InitSize = 16
 MaxSteps = 0
 Hist = FALSE
 RegBias = 1
"""
ACKQ_GRAPH_TAIL = """INVARIANTS TypeOK EmitState
PROPERTIES FifoRelease
ACTION_CONSTRAINT EmitEdge
VIEW AbsView
"""
ACKQ_TRACE_TAIL = """INVARIANTS ShadowOK Report
POSTCONDITION Accepted
"""
ACKQ_GRAPHS = [
    ("ackq-qos2", dict(ids="{1,2,3}", ackids="{1,2,3,9}", kinds='{"pub2"}', tags='{"x","y"}', acktags='{"x"}',
                       acktypes='{"PUBREC","PUBREL","PUBCOMP"}', ping="FALSE", bad="FALSE", maxlen=3)),
    ("ackq-mixed", dict(ids="{1,2}", ackids="{1,2,9}", kinds='{"pub1","sub","unsub"}', tags='{"x","y"}', acktags='{"x","y"}',
                        acktypes='{"PUBACK","SUBACK","UNSUBACK"}', ping="FALSE", bad="FALSE", maxlen=2)),
    ("ackq-ping", dict(ids="{1,2}", ackids="{1,9}", kinds='{"pub1"}', tags='{"x"}', acktags='{"x"}',
                       acktypes='{"PUBACK","PUBREC"}', ping="TRUE", bad="TRUE", maxlen=2)),
]
ACKQ_TRACE_CONSTS = dict(ids="{}", ackids="{}", kinds='{"pub1","pub2","sub","unsub"}', tags='{"x","y"}', acktags='{"x","y"}',
                         acktypes='{"PUBACK","PUBREC","PUBREL","PUBCOMP","SUBACK","UNSUBACK"}', ping="TRUE", bad="TRUE",
                         maxlen=1000000)


def validate_trace(v, module, cfg, trace_text, label, what, timeout=900, dfs=False, highwater=False):
    """Direction B: TLC decides whether the recorded trace is a behaviour of the trace specification.
    Returns (accepted, matched_prefix_length, report records)."""
    nev = trace_text.count("\n")
    r = core.run_tlc(module, cfg, workers=1, timeout=timeout, extra_files={"trace.ndjson": trace_text}, dfs=dfs)
    v.cov["states"] += r.distinct
    v.cov["transitions"] += r.generated
    v.cov["tlc_runs"].append(dict(name=label, cmd=r.cmd, **r.stats()))
    reports = [x for x in core.behaviours(r.lines) if isinstance(x, dict) and "report" in x]
    if r.violation:
        # either the trace could not be continued (postcondition) or an invariant of the specification
        # failed on a recorded execution (every invariant is evaluated at every step of the trace):
        # both are observations about the real code
        depth = r.depth
        if highwater:
            hw = [x for x in core.behaviours(r.lines) if isinstance(x, dict) and "highwater" in x]
            depth = hw[-1]["highwater"] if hw else 0
        return False, depth, reports, r.violation
    return True, nev, reports, None


def ackq_lin(v, trials):
    """Concurrent callers on one real Ackqueue (Wait that makes a full, wrapped ring grow against Ack / Acked): the recorded
    call/return histories must be linearizable w.r.t. the AckQueue actions (unlogged linearization points placed by TLC)."""
    tmp = tempfile.mkdtemp(prefix="verif-aql-")
    try:
        tf = os.path.join(tmp, "trace.ndjson")
        p = core.run_harness(["ackqlin", "-seed", str(core.seed()), "-trials", str(trials), "-big", "40000" if trials > 10000 else "0", "-out", tf], timeout=900)   # the trial with 40,000 requests in flight costs TLC minutes: thorough tier only
        if p.returncode != 0:
            raise Infra("ackqlin failed: %s" % p.stderr[-2000:])
        res = json.loads(p.stdout.strip().splitlines()[-1])
        v.mismatches(res.get("mismatches"), res.get("counts"))
        text = open(tf).read()
    finally:
        import shutil
        shutil.rmtree(tmp, ignore_errors=True)
    lines = text.splitlines()
    overlaps = sum(1 for i in range(len(lines) - 1) if '"call"' in lines[i] and '"call"' in lines[i + 1])
    cfg = ACKQ_CFG % dict(ACKQ_TRACE_CONSTS, spec="TraceSpec") + "CONSTRAINT HighWater\nPOSTCONDITION Accepted\n"
    ok, matched, reports, why = validate_trace(v, "AckQueueLinTrace", cfg, text, "AckQueueLinTrace", "ack queue, concurrent callers", dfs=True, highwater=True)
    v.cov["parts"]["concurrent-callers"] = {"trials": trials, "events": len(lines), "overlapping_calls": overlaps, "matched_prefix": matched}
    v.cov["traces_validated_against_impl"] += trials
    v.cov["evaluations"] += len(lines)
    if not ok:
        lo = matched
        while lo > 0 and '"setup"' not in lines[lo - 1]:
            lo -= 1
        v.mismatch({"what": "concurrent callers on one ack queue: the recorded call/return history is not linearizable w.r.t. the AckQueue specification (%s); "
                            "trial: %s" % (why, " ".join("%s%s(%s)" % (e["ev"][0], e["id"], e["op"] + (str(e["pid"]) if e["pid"] else "") + ("" if not e["out"] else "->" + ",".join(str(o["id"]) for o in e["out"])))
                                                         for e in map(json.loads, lines[max(lo - 1, 0):matched + 1]))[:900]),
                    "replay": {"seed": core.seed(), "events": lines[max(lo - 1, 0):matched + 1]}})
    elif overlaps < trials // 20:
        v.notes.append("concurrent-callers: only %d overlapping calls in %d trials" % (overlaps, trials))


@check("C13")
def c13(tier):
    v = Verdict("C13", tier)
    thorough = tier == "thorough"
    for name, consts in ACKQ_GRAPHS:
        cfg = ACKQ_CFG % dict(consts, spec="Spec") + ACKQ_GRAPH_TAIL
        r = core.cached_tlc(name, "AckQueue", cfg, workers=1, timeout=600)
        v.tlc(name, r)
        gpath, ns, ne = write_graph(name, r)
        v.cov["parts"][name + ":graph"] = {"states": ns, "edges": ne}
        v.cov["distinct_nontrivial"] += ne
        depth = {"ackq-qos2": 5, "ackq-mixed": 4, "ackq-ping": 6}[name] + (1 if thorough else 0)
        graph_walks(v, "ackq", gpath, [dict(mode="paths", depth=depth), dict(mode="cover"),
                                       dict(mode="random", walks=30 if not thorough else 300, len=300, seed=core.seed())])
    # direction B: long random histories with hundreds of requests in flight
    ntr, nev = (24, 2500) if not thorough else (200, 4000)
    tmp = tempfile.mkdtemp(prefix="verif-c13-")
    try:
        tf = os.path.join(tmp, "trace.ndjson")
        p = core.run_harness(["ackqtrace", "-seed", str(core.seed()), "-traces", str(ntr), "-events", str(nev), "-out", tf])
        if p.returncode != 0:
            raise Infra("ackqtrace failed: %s" % p.stderr[-2000:])
        res = json.loads(p.stdout.strip().splitlines()[-1])
        v.mismatches(res.get("mismatches"), res.get("counts"))
        text = open(tf).read()
    finally:
        import shutil
        shutil.rmtree(tmp, ignore_errors=True)
    ok, matched, reports, why = validate_trace(v, "AckQueueTrace", ACKQ_CFG % dict(ACKQ_TRACE_CONSTS, spec="TraceSpec") + ACKQ_TRACE_TAIL,
                                               text, "AckQueueTrace", "ack queue")
    lines = text.splitlines()
    v.cov["parts"]["recorded-traces"] = {"traces": ntr, "events": len(lines), "matched_prefix": matched,
                                         "max_in_flight": res.get("counts", {}).get("max_in_flight", 0),
                                         "spec_report": reports[-1]["report"] if reports else None}
    v.cov["traces_validated_against_impl"] += ntr
    v.cov["evaluations"] += len(lines)
    if not ok:
        lo = max(0, matched - 6)
        v.mismatch({"what": "recorded ack-queue trace rejected by AckQueueTrace at event %d (%s): %s" % (
            matched, why, lines[matched - 1] if 0 < matched <= len(lines) else "?"),
            "replay": {"seed": core.seed(), "events": lines[lo:matched + 1]}})
    elif reports and (reports[-1]["report"]["n"] < 3 or reports[-1]["report"]["wrapped"] < 1):
        raise Infra("recorded traces never grew the ring while wrapped: %s" % reports[-1])
    v.add_samples([json.loads(x) for x in lines[40:46]], 6)
    ackq_lin(v, 3000 if not thorough else 40000)
    v.cov["rule"] = ("every path up to the stated depth, a transition cover and seeded random walks through the TLC-generated state "
                     "graphs of AckQueue (3 configurations), each Acked() result compared entry by entry (type, state, id, request bytes, "
                     "ack bytes, callback identity; caller buffers overwritten after every call); plus recorded traces of random drivers "
                     "validated by TLC against AckQueueTrace. distinct_nontrivial = graph edges")
    v.cov["exhaustive"] = True
    v.assumptions += ["graph walks and random drivers: one caller at a time per queue; concurrent callers (the application goroutine registers while the processor acknowledges and releases) "
                      "are covered by recorded call/return histories around ring growth, checked for linearizability by TLC (AckQueueLinTrace)",
                      "expected request/ack bytes are produced with the library's encoder (its fidelity is C03's subject)"]
    return v.finish()


# ------------------------------------------------------------------------------------------ C14 / C15

RING_CFG = """SPECIFICATION %(spec)s
CONSTANTS
 Size = 4
 Block = 2
 Total = %(total)d
 MaxChunk = %(maxchunk)d
 NClose = %(nclose)d
 PMode = "%(pmode)s"
 CMode = "%(cmode)s"
 POps = %(pops)s
 COps = %(cops)s
 DevStale = %(stale)s
 DevLeak = %(leak)s
 DevCloseMu = %(closemu)s
 Eager = %(eager)s
 Hist = %(hist)s
 MaxHist = 400
"""
RING_BASE = dict(spec="Spec", maxchunk=2, total=4, nclose=1, pmode="calls", cmode="calls", pops='{"W"}', cops='{"RW"}',
                 stale="FALSE", leak="FALSE", closemu="FALSE", eager="FALSE", hist="FALSE")
RING_GEN = [  # (name, overrides, quick?)
    ("w-rw", {}, True),
    ("ww-rp", dict(pops='{"WW"}', cops='{"RP"}'), True),
    ("w-r", dict(cops='{"R"}'), True),
    ("ww-pump", dict(pops='{"WW"}', cmode="pump"), True),
    ("w-rw-noclose", dict(nclose=0, total=6), True),
    # calls that ask for more than one read block (3 of the ring's 4 units): a producer may wait for more room than a block
    ("ww-rp-chunk3", dict(pops='{"WW"}', cops='{"RP"}', maxchunk=3, nclose=0, total=7), True),
    ("pump-rw", dict(pmode="pump"), True),
    ("pump-pump", dict(pmode="pump", cmode="pump"), False),
    ("w-rw-close2", dict(nclose=2), False),
    ("ww-rp-5", dict(pops='{"WW"}', cops='{"RP"}', total=5), False),
    ("w-r-5", dict(cops='{"R"}', total=5, nclose=2), False),
]
RING_INV = "INVARIANTS Fifo NoOverwrite Bounded ReservedFree LocksFreeAtRest MutexOwnersSane\n"


def ring_schedules(name, over):
    """Transition-cover schedules of the Ring specification in the replayable (Eager) regime.
    Cached under gen/ as ndjson of the maximal witness schedules."""
    consts = dict(RING_BASE, eager="TRUE", hist="TRUE")
    consts.update(over)
    cfg = RING_CFG % consts + RING_INV.replace("\n", " Emit\n") + "VIEW CoverView\n"
    os.makedirs(core.GEN, exist_ok=True)
    key = core.spec_hash("Ring", cfg, "sched")
    path = os.path.join(core.GEN, "ring-%s-%s.ndjson" % (name, key))
    meta = path + ".meta"
    if os.path.exists(path) and os.path.exists(meta):
        return path, json.load(open(meta))
    r = core.run_tlc("Ring", cfg, workers=1, timeout=1500)
    if r.violation:
        raise Infra("TLC reports '%s' while generating ring schedules %s" % (r.violation, name))
    behs = core.behaviours(r.lines)
    lv = core.leaves(behs, key=lambda x: x["h"])
    for fn in os.listdir(core.GEN):
        if fn.startswith("ring-%s-" % name):
            os.unlink(os.path.join(core.GEN, fn))
    with open(path, "w") as f:
        for x in lv:
            f.write(json.dumps(x) + "\n")
    m = {"generated": r.generated, "distinct": r.distinct, "depth": r.depth, "wall_s": round(r.wall, 1),
         "witness_paths": len(behs), "maximal_schedules": len(lv), "steps": sum(len(x["h"]) for x in lv), "cmd": r.cmd}
    json.dump(m, open(meta, "w"))
    return path, m


def ring_design(v, thorough, deadlock_family):
    """TLC checks the Ring design itself (unrestricted interleavings, no history)."""
    runs = [
        ("ring-calls-close", dict(total=5 if not thorough else 6, nclose=1 if not thorough else 2, pops='{"W","WW"}', cops='{"R","RP","RW"}'), "Spec", ""),
        ("ring-calls-noclose", dict(total=6 if not thorough else 7, nclose=0, pops='{"W","WW"}', cops='{"R","RP","RW"}'), "Spec", ""),
        ("ring-pump-calls", dict(total=5 if not thorough else 6, pmode="pump", cops='{"R","RP","RW"}'), "Spec", ""),
        ("ring-calls-pump", dict(total=5 if not thorough else 6, cmode="pump", pops='{"W","WW"}'), "Spec", ""),
    ]
    if deadlock_family:
        runs += [("ring-liveness", dict(total=4, pops='{"W","WW"}', cops='{"R","RP","RW"}'), "FairSpec", "PROPERTIES Terminates CloseReturns\n"),
                 ("ring-liveness-pump", dict(total=4, pmode="pump", cmode="pump"), "FairSpec", "PROPERTIES Terminates CloseReturns\n")]
    for name, over, spec, props in runs:
        consts = dict(RING_BASE, spec=spec)
        consts.update(over)
        cfg = RING_CFG % consts + RING_INV + props + "CHECK_DEADLOCK TRUE\n"
        r = core.cached_tlc(name + ("-t" if thorough else "-q"), "Ring", cfg, workers=8, timeout=1500, deadlock=True)
        v.tlc(name, r)
    if deadlock_family:
        # vacuity guard: with each named deviation switched on, TLC must find the defect
        for dev in ("stale", "leak", "closemu"):
            consts = dict(RING_BASE, total=6, nclose=0 if dev == "stale" else 1, pops='{"W","WW"}', cops='{"R","RP","RW"}')
            consts[dev] = "TRUE"
            cfg = RING_CFG % consts + RING_INV + "CHECK_DEADLOCK TRUE\n"
            r = core.cached_tlc("ring-dev-" + dev, "Ring", cfg, workers=8, timeout=600, deadlock=True)
            v.cov["tlc_runs"].append(dict(name="deviation " + dev + " (must be refuted)", found=r.violation, **r.stats()))
            if not r.violation:
                raise Infra("the Ring specification with deviation %s is not refuted by TLC: the configuration is vacuous" % dev)


def topics_ret_graph(v, thorough):
    """The retained half of the topic store over its TLC-generated state graph (shared by C06 and C08): results of every
    look-up, and every message object a look-up handed out keeps encoding to the same packet whatever is stored later."""
    consts = dict(whos='{"i:7"}', filters="RFilters", names="RNames", maxqos=1, qosreq="{2}",
                  payloads='{"x", "yy"}', retqos="{0, 2}", withnil="TRUE")
    name = "topics-ret" + ("-t" if thorough else "-q")
    r = core.cached_tlc(name, "MCTopics", TOPICS_GRAPH_CFG % consts, workers=1, timeout=1200)
    v.tlc("topics-ret", r)
    gpath, ns, ne = write_graph(name, r)
    v.cov["parts"]["topics-ret:graph"] = {"states": ns, "edges": ne}
    v.cov["distinct_nontrivial"] += ne
    graph_walks(v, "topics", gpath, [dict(mode="paths", depth=3 if not thorough else 4), dict(mode="cover"),
                                     dict(mode="random", walks=40, len=200, seed=core.seed())], ["-maxqos", "1"])


def ring_edge(v, own):
    """The guards of the Ring specification at byte granularity (RingEdge): exactly enough / one byte short."""
    r = core.cached_tlc("ringedge", "RingEdge", "SPECIFICATION Spec\nCONSTANTS Size = 16384\nINVARIANTS Boundary Emit\n", workers=1, timeout=300)
    v.tlc("RingEdge", r)
    cases = core.behaviours(r.lines)
    res = core.merge(core.run_sharded(["ringedge"], cases, timeout=900))
    if res.get("counts", {}).get("infra"):
        raise Infra("ringedge harness: %s" % res.get("notes")[:2])
    account(v, res, "guards-at-byte-granularity", {"waiting_cases": res.get("counts", {}).get("waiting_cases", 0)}, own=own)
    v.cov["distinct_nontrivial"] += len(cases)


def ring_close_replay(v, own):
    """Teardown rests on buffer.Close releasing whoever waits in the ring: the gated schedules of the Ring configurations
    with a closer (Close between a waiter's test of the done flag and its Wait included), replayed for C16."""
    for name, over, in_quick in RING_GEN:
        if name not in ("w-rw", "ww-rp"):
            continue
        path, meta = ring_schedules(name, over)
        v.cov["tlc_runs"].append(dict(name="schedules " + name, **meta))
        scheds = [json.loads(l) for l in open(path)]
        scheds = [x for x in scheds if any(st.startswith("X ") for st in x["h"])]
        res = core.merge(core.run_sharded(["ringreplay", "-stepms", "2500", "-own", "C15"], scheds, timeout=1200))
        mine = [m for m in res.get("mismatches", []) if m.get("tag") in own]
        v.mismatches(mine)
        v.cov["parts"]["ring-close-schedules:" + name] = {"replayed": res.get("evaluations", 0), "steps": res.get("steps", 0),
                                                          "mismatching": res.get("nmismatch", 0), "own": len(mine)}
        v.cov["evaluations"] += res.get("evaluations", 0)
        v.cov["traces_validated_against_impl"] += res.get("evaluations", 0)


def ring_check(pid, tier):
    v = Verdict(pid, tier)
    thorough = tier == "thorough"
    ring_design(v, thorough, pid == "C15")
    # gated replay of the transition-cover schedules
    import random
    total_steps = 0
    foreign = 0
    for name, over, in_quick in RING_GEN:
        if not thorough and not in_quick:
            continue
        path, meta = ring_schedules(name, over)
        v.cov["tlc_runs"].append(dict(name="schedules " + name, **meta))
        v.cov["states"] += meta["distinct"]
        v.cov["transitions"] += meta["generated"]
        scheds = [json.loads(l) for l in open(path)]
        res = core.merge(core.run_sharded(["ringreplay", "-stepms", "2500", "-own", pid], scheds, timeout=1200))
        mine = [m for m in res.get("mismatches", []) if m.get("tag") == pid]
        foreign += len([m for m in res.get("mismatches", []) if m.get("tag") != pid])
        v.mismatches(mine)
        c = res.get("counts", {})
        v.cov["parts"]["schedules:" + name] = {
            "replayed": res.get("evaluations", 0), "of": meta["maximal_schedules"], "steps": res.get("steps", 0),
            "chunking_differs": c.get("chunking_differs", 0), "parks": c.get("parked", 0), "wakes": c.get("step:w", 0), "eof_returns": c.get("eof-returns", 0),
            "lock_probes": c.get("lockprobes", 0), "mismatching": res.get("nmismatch", 0)}
        v.cov["evaluations"] += res.get("evaluations", 0)
        v.cov["traces_validated_against_impl"] += res.get("evaluations", 0)
        v.cov["distinct_nontrivial"] += res.get("evaluations", 0)
        total_steps += res.get("steps", 0)
        v.add_samples(res.get("samples") or [], 1)
        for n in res.get("notes", [])[:5]:
            v.notes.append(n)
    v.cov["diverged_foreign"] = foreign
    ring_edge(v, {pid})
    return v, thorough


@check("C14")
def c14(tier):
    v, thorough = ring_check("C14", tier)
    # direction B: free-running pairs, byte granularity
    ntr, nbytes = (24, 400000) if not thorough else (120, 1500000)
    tmp = tempfile.mkdtemp(prefix="verif-c14-")
    try:
        tf = os.path.join(tmp, "trace.ndjson")
        p = core.run_harness(["ringstream", "-seed", str(core.seed()), "-traces", str(ntr), "-bytes", str(nbytes), "-out", tf], timeout=900)
        if p.returncode != 0:
            raise Infra("ringstream failed: %s" % p.stderr[-2000:])
        res = json.loads(p.stdout.strip().splitlines()[-1])
        text = open(tf).read()
    finally:
        import shutil
        shutil.rmtree(tmp, ignore_errors=True)
    if res.get("counts", {}).get("stuck_traces"):
        v.notes.append("free-running: %s" % res.get("notes"))
    cfg = "SPECIFICATION Spec\nINVARIANTS PrefixInv LagInv Report\nPOSTCONDITION Accepted\n"
    ok, matched, reports, why = validate_trace(v, "RingStreamTrace", cfg, text, "RingStreamTrace", "ring stream")
    lines = text.splitlines()
    v.cov["parts"]["free-running"] = {"traces": ntr, "events": len(lines), "matched_prefix": matched,
                                      "spec_report": reports[-1]["report"] if reports else None,
                                      "stuck": res.get("counts", {}).get("stuck_traces", 0)}
    v.cov["traces_validated_against_impl"] += ntr
    if not ok:
        lo = max(0, matched - 5)
        v.mismatch({"what": "recorded ring stream rejected by RingStreamTrace at event %d (%s): %s" % (
            matched, why, lines[matched - 1] if 0 < matched <= len(lines) else "?"),
            "replay": {"seed": core.seed(), "events": lines[lo:matched + 1]}})
    # the ring as the connection uses it: the producer is writeMessage (with its own wrap path through a scratch buffer), the
    # consumer the sender's peek/commit pump. Recorded runs of a real broker: what writeMessage announces to commit (enq
    # hook: packet, length) against what the peer reads from the connection
    fanin_validate(v, "C14", tier)
    v.cov["rule"] = ("TLC: all interleavings of the Ring specification (Size 4 units, all operation kinds). Replay: transition-cover "
                     "schedules generated by TLC (one witness per transition of the replayable regime), forced on the real buffer through "
                     "the verif yield points, with consumed bytes checked against a position-dependent stream, cursors after every step; "
                     "free-running pairs validated against RingStreamTrace. distinct_nontrivial = schedules replayed")
    v.cov["exhaustive"] = thorough
    v.assumptions += ["one producer and one consumer goroutine (the buffer's contract)",
                      "one model unit = 4096 bytes in gated replay; byte granularity only in the free-running part",
                      "quick tier replays all maximal schedules of 5 configurations, thorough of 10 (larger bounds)"]
    return v.finish()


@check("C15")
def c15(tier):
    v, thorough = ring_check("C15", tier)
    v.cov["rule"] = ("TLC: deadlock freedom, LocksFreeAtRest, termination and Close ~> returned under weak fairness on the Ring "
                     "specification; each named deviation (stale cursor, leaked mutex, Close under the wrong mutex) is refuted by TLC "
                     "(vacuity guard). Replay: transition-cover schedules forced on the real buffer; after every step: the yield point "
                     "reached or the call result, parking observed through the mutex probe, both mutex probes compared, a step the "
                     "specification enables must complete (3-fold reproduction before it counts). distinct_nontrivial = schedules replayed")
    v.cov["exhaustive"] = thorough
    v.assumptions += ["a woken waiter re-acquires its mutex before anyone else moves (cannot be gated inside sync.Cond.Wait); the "
                      "unrestricted interleavings are checked by TLC on the specification only",
                      "a blocked step is accepted as a violation only when it reproduces on two further replays (4 s deadline each)"]
    return v.finish()


# ------------------------------------------------------------------------------------------ C03 / C04

CODEC_CFG = """SPECIFICATION Spec
CONSTANTS
 Mode = "%s"
 ParseAlpha = {0, 1, 2, 3, 4, 5, 32, 48, 50, 52, 64, 97, 98, 128, 130, 144, 162, 192, 255}
 ParseMaxLen = %d
INVARIANTS SelfConsistent PadConsistent Emit
"""


def codec_cases(v):
    r = core.cached_tlc("codec-cases", "Codec", CODEC_CFG % ("cases", 0), workers=1, timeout=900)
    v.tlc("Codec(cases)", r)
    cases = core.behaviours(r.lines)
    if len(cases) < 1000:
        raise Infra("Codec: only %d cases" % len(cases))
    return cases


def codec_variants(v, mode):
    """pads: reference cases with a non-minimal remaining length; mods: pairs (decoded case, case set through the setters)"""
    r = core.cached_tlc("codec-" + mode, "Codec", CODEC_CFG % (mode, 0), workers=1, timeout=900)
    v.tlc("Codec(%s)" % mode, r)
    xs = core.behaviours(r.lines)
    if len(xs) < 100:
        raise Infra("Codec(%s): only %d cases" % (mode, len(xs)))
    return xs


def account(v, res, label, extra=None, own=None):
    v.cov["parts"][label] = dict({"inputs": res.get("evaluations", 0), "checks": res.get("steps", 0),
                                  "mismatching": res.get("nmismatch", 0)}, **(extra or {}))
    v.cov["evaluations"] += res.get("evaluations", 0)
    v.cov["traces_validated_against_impl"] += res.get("evaluations", 0)
    ms = res.get("mismatches") or []
    if own is not None:
        foreign = [m for m in ms if m.get("tag") not in own]
        ms = [m for m in ms if m.get("tag") in own]
        if foreign:
            v.cov["diverged_foreign"] = v.cov.get("diverged_foreign", 0) + len(foreign)
            v.notes.append("%s: %d inputs diverged on observables of another property, e.g. %s" % (label, len(foreign), foreign[0]["what"][:200]))
    v.mismatches(ms, res.get("counts"))
    v.add_samples(res.get("samples") or [], 2)


@check("C03")
def c03(tier):
    v = Verdict("C03", tier)
    cases = codec_cases(v)
    by = {}
    for c in cases:
        by[c["case"]["ty"]] = by.get(c["case"]["ty"], 0) + 1
    res = core.merge(core.run_sharded(["codec"], cases, timeout=900))
    account(v, res, "reference-cases", {"cases_by_type": by}, own={"C03", "C04"})
    v.cov["distinct_nontrivial"] += len(cases)
    # messages changed through their setters after Decode (as the broker does), and packets with a non-minimal remaining length
    mods = codec_variants(v, "mods")
    res = core.merge(core.run_sharded(["codec"], mods, timeout=900))
    account(v, res, "changed-after-decode (also: clones stay independent)", {"pairs": len(mods)}, own={"C03"})
    v.cov["distinct_nontrivial"] += len(mods)
    edits = codec_variants(v, "edits")
    res = core.merge(core.run_sharded(["codec"], edits, timeout=900))
    account(v, res, "filter-lists-edited-at-any-position", {"edit_sequences": len(edits)}, own={"C03"})
    v.cov["distinct_nontrivial"] += len(edits)
    pads = codec_variants(v, "pads")
    res = core.merge(core.run_sharded(["codec"], pads, timeout=900))
    account(v, res, "padded-remaining-length", {"accepted": res.get("counts", {}).get("padded_accepted", 0),
                                                "refused": res.get("counts", {}).get("padded_refused", 0)}, own={"C03"})
    # history of the process-wide packet-id counter, in one fresh process
    n = 131073 if tier != "thorough" else 300000
    p = core.run_harness(["codecids", "-n", str(n)], timeout=600)
    if p.returncode != 0:
        raise Infra("codecids failed: %s" % p.stderr[-2000:])
    res2 = json.loads(p.stdout.strip().splitlines()[-1])
    account(v, res2, "automatic-packet-ids", own={"C03"})
    r = core.cached_tlc("packetid", "PacketId", "SPECIFICATION Spec\nCONSTANTS N = 131073\nINVARIANTS IdNonZero\n", workers=1, timeout=600)
    v.tlc("PacketId", r)
    v.cov["rule"] = ("every case of the Codec specification (product of boundary classes: string/payload lengths 0/1/127/128/16383/16384/65535, "
                     "remaining lengths on both sides of every varint boundary, 1..9 filters, all flag combinations, ids 1/255/256/65535) is built "
                     "through the public setters and compared with the reference wire form: Len, Encode bytes, Decode length and fields, re-encode, "
                     "decode with trailing bytes; pairs (A, B) of small cases: A's wire form is decoded, the fields in which B differs are set through the setters (packet "
                     "identifier also left to the library), Len and Encode must give B's wire form; packets with padded remaining length, if accepted, re-encode "
                     "to their bytes; plus %d consecutive automatically numbered encodes. distinct_nontrivial = cases + pairs" % n)
    v.cov["exhaustive"] = True
    v.assumptions += ["exhaustive over classes of field values, not over all values; bulk content is expanded from seeds by the harness",
                      "the reference codec is a transcription of MQTT 3.1.1 into TLA+ (self-consistency checked by TLC: Parse inverts Wire)"]
    return v.finish()


@check("C04")
def c04(tier):
    v = Verdict("C04", tier)
    thorough = tier == "thorough"
    cases = codec_cases(v)
    r = core.cached_tlc("codec-parse", "Codec", CODEC_CFG % ("parse", 4), workers=1, timeout=900)
    v.tlc("Codec(parse)", r)
    strs = core.behaviours(r.lines)
    res = core.merge(core.run_sharded(["decodeparse"], strs, timeout=900))
    account(v, res, "short-strings", {"strings": len(strs), "wellformed": sum(1 for x in strs if x["p"]["ok"]),
                                      "lenient_accepts": res.get("counts", {}).get("lenient_accepts", 0)})
    v.cov["distinct_nontrivial"] += len(strs)
    # every reference case (all 14 types, boundary lengths, repeated filters) is accepted with its field values
    resc = core.merge(core.run_sharded(["codec"], cases, timeout=900))
    account(v, resc, "reference-cases(decode direction)", own={"C04"})
    # a message object that held another packet before is decoded into again (pairs of Codec!Mods)
    mods = codec_variants(v, "mods")
    resm = core.merge(core.run_sharded(["codec"], mods, timeout=900))
    account(v, resm, "decode-into-a-used-message", {"pairs": len(mods)}, own={"C04"})
    v.cov["distinct_nontrivial"] += len(mods)
    pads = codec_variants(v, "pads")
    resp = core.merge(core.run_sharded(["codec"], pads, timeout=900))
    account(v, resp, "padded-remaining-length", {"accepted": resp.get("counts", {}).get("padded_accepted", 0),
                                                 "refused": resp.get("counts", {}).get("padded_refused", 0)}, own={"C04"})
    v.cov["distinct_nontrivial"] += len(pads)
    # decoders used by many goroutines at once (independent message objects, independent inputs): the process survives
    p = core.run_harness(["decodeconc", "-workers", "8", "-rounds", "20000" if not thorough else "200000"], timeout=900)
    if p.returncode != 0:
        err = p.stderr or ""
        head = [l for l in err.splitlines() if "fatal error" in l or l.startswith("panic:")][:2] + [l.strip() for l in err.splitlines() if "go-mqtt/" in l][:3]
        if not head:
            raise Infra("decodeconc failed: %s" % err[-1500:])
        v.mismatch({"what": "concurrent Decode calls on independent messages and inputs: the process died (exit %s): %s" % (p.returncode, " | ".join(head)[:500]),
                    "replay": {"command": "decodeconc -workers 8"}})
        v.cov["parts"]["concurrent-decoders"] = {"died": True}
    else:
        account(v, json.loads(p.stdout.strip().splitlines()[-1]), "concurrent-decoders", own={"C04"})
    res2 = core.merge(core.run_sharded(["decodemut", "-seed", str(core.seed()), "-random", "20000" if not thorough else "400000"], cases, timeout=1500))
    account(v, res2, "mutations-and-random", {"lenient_accepts": res2.get("counts", {}).get("lenient_accepts", 0)})
    v.cov["distinct_nontrivial"] += res2.get("steps", 0)
    v.cov["rule"] = ("all byte strings of length <= 4 over a 19-byte structure alphabet judged by the total reference parser (Codec!Parse) and fed to all "
                     "14 decoders; truncations at/next to every segment boundary and edits of every structure byte of every reference case; seeded "
                     "random byte strings; every input in a slice with cap = len inside a canary array, under recover. A panic, n > len, a field "
                     "outside the decoded packet or a well-formed packet rejected/misread is a violation; reference packets with a non-minimal remaining length "
                     "(1-3 padding bytes) may be refused, but if accepted must yield the packet's fields and byte count. distinct_nontrivial = strings + decode calls on mutations")
    v.cov["exhaustive"] = False
    v.assumptions += ["totality over all byte strings is approximated by structured and random inputs",
                      "leniencies (malformed input accepted) are counted, not reported: the property allows 'a message or an error'"]
    return v.finish()


# ------------------------------------------------------------------------------------------ broker (sequential regime)

BROKER_CFG = """SPECIFICATION %(spec)s
CONSTANTS
 c1 = c1
 c2 = c2
 c3 = c3
 L1 = L1
 k1 = k1
 k2 = k2
 k3 = k3
 NoCid = NoCid
 Conns = {c1, c2}
 Locals = {L1}
 Cids = %(cids)s
 MaxQos = %(maxqos)d
 MixedLevels = {"a+", "c#"}
 MaxSteps = %(depth)d
INVARIANTS TypeOK %(emit)s
PROPERTIES StepProps
%(view)s
"""


def broker_behaviours(v, spec, depth, mode="cover", maxqos=2):
    """Behaviours of one Broker configuration: transition cover (one witness per transition of the
    abstract state graph within depth steps; maximal witnesses are replayed) or all paths of that depth."""
    cfg = BROKER_CFG % dict(spec=spec, depth=depth, maxqos=maxqos, cids="{k1, k2, k3}" if spec == "FormSpec" else "{k1, k2}", emit="Emit" if mode == "cover" else "EmitFull",
                            view="VIEW CoverView" if mode == "cover" else "")
    r, behs = core.cached_tlc_file("broker-%s-%s-%d-%d" % (spec, mode, depth, maxqos), "MCBroker", cfg,
                                   leaves_key=(lambda x: [s["a"] for s in x]) if mode == "cover" else None, workers=1, timeout=2400)
    v.tlc("%s(%s, depth %d)" % (spec, mode, depth), r)
    return behs


def broker_replay(v, pid, behs, label, auth="mockSuccess", maxqos=2, own_tags=None, frag=0, orderonly=False, pipe=False):
    own_tags = own_tags or {pid}
    if len(behs) == 0:
        raise Infra("%s: the specification produced no behaviours to replay" % label)
    life = pid in ("C09", "C10") and frag == 0 and not orderonly
    lifedir = tempfile.mkdtemp(prefix="verif-life-") if life else None
    try:
        res = core.merge(core.run_sharded(["brokerreplay", "-auth", auth, "-maxqos", str(maxqos), "-frag", str(frag), "-own", ",".join(sorted(own_tags))] + (["-orderonly", "1"] if orderonly else []) + (["-pipe", "1"] if pipe else [])
                                          + (["-life", os.path.join(lifedir, "life{shard}.ndjson"), "-lifeevery", str(max(1, len(behs) // 6000))] if life else []), behs, timeout=2400))
        if life:
            # the life cycle of every broker connection of these runs (start, goroutine exits, DISCONNECT seen, stop phases,
            # will) must be a behaviour of Life; a rejection at a will step is C09's observable, any other C16's
            text = ""
            for fn in sorted(os.listdir(lifedir)):
                with open(os.path.join(lifedir, fn)) as f:
                    text += f.read()
            life_validate(v, "C09" if pid == "C09" else "C16", label, text)
    finally:
        if lifedir:
            import shutil
            shutil.rmtree(lifedir, ignore_errors=True)
    mine = [m for m in res.get("mismatches", []) if m.get("tag") in own_tags]
    foreign = [m for m in res.get("mismatches", []) if m.get("tag") not in own_tags]
    v.cov["parts"][label] = {"behaviours": res.get("evaluations", 0), "steps": res.get("steps", 0),
                             "mismatching": res.get("nmismatch", 0), "own": len(mine), "diverged_foreign": len(foreign),
                             "unreproduced": res.get("counts", {}).get("unreproduced", 0)}
    v.cov["evaluations"] += res.get("evaluations", 0)
    v.cov["traces_validated_against_impl"] += res.get("evaluations", 0)
    v.cov["distinct_nontrivial"] += res.get("evaluations", 0)
    v.cov["diverged_foreign"] = v.cov.get("diverged_foreign", 0) + len(foreign)
    if foreign:
        kinds = {}
        for m in foreign:
            kinds[m.get("tag")] = kinds.get(m.get("tag"), 0) + 1
        v.notes.append("%s: %s behaviours diverged on observables of other properties %s, e.g. %s" % (
            label, len(foreign), kinds, foreign[0]["what"][:300]))
    v.mismatches(mine)
    v.add_samples(res.get("samples") or [], 1)
    for n in res.get("notes", [])[:3]:
        v.notes.append(n)
    return res


BROKER_ASSUME = ["sequential regime: one stimulus at a time, broker reaction observed up to a PINGREQ/PINGRESP barrier on every connection",
                 "bounded vocabularies and depths; 16 KiB rings; payload classes tiny / empty / big (6 KB: consecutive packets wrap the ring)",
                 "packet identifiers of forwarded QoS>0 packets are only required to be non-zero here (C12 is about their distinctness)",
                 "the retain flag of a live forward to an in-process (Server.Subscribe) callback is not specified (the library hands the publisher's message object to the callback)"]


def broker_check(pid, tier, plan, own, rule, extra=None, frag_item=None, pipe_item=None):
    v = Verdict(pid, tier)
    thorough = tier == "thorough"
    for idx, item in enumerate(plan):
        spec, mode, dq, dt, auth = item[:5]
        maxqos = item[5] if len(item) > 5 else 2
        d = dt if thorough else dq
        behs = broker_behaviours(v, spec, d, mode, maxqos=maxqos)
        broker_replay(v, pid, behs, "%s(%s,%d%s)" % (spec, mode, d, "" if maxqos == 2 else ",maxqos=%d" % maxqos), auth=auth, maxqos=maxqos, own_tags=own)
        if idx == frag_item:
            # the same behaviours with every client write cut into segments: after the first byte, before the last
            # byte (thorough: also in the middle, and byte by byte)
            for fm in ([1, 3] if not thorough else [1, 2, 3, 4]):
                broker_replay(v, pid, behs, "%s(%s,%d) segmented writes, mode %d" % (spec, mode, d, fm), auth=auth, maxqos=maxqos, own_tags=own, frag=fm)
        if idx == pipe_item:
            # the same behaviours with every CONNECT and the packet its connection sends next in one write (a client that
            # does not wait for the CONNACK); the outputs of the two steps are compared together
            broker_replay(v, pid, behs, "%s(%s,%d) CONNECT and the next packet in one write" % (spec, mode, d), auth=auth, maxqos=maxqos, own_tags=own, pipe=True)
    if extra:
        extra(v)
    v.cov["rule"] = rule + " distinct_nontrivial = behaviours replayed (each is a distinct operation sequence; cover mode: the maximal witnesses of one-witness-per-transition)."
    v.cov["exhaustive"] = True
    v.assumptions += BROKER_ASSUME
    return v.finish()


@check("C01")
def c01(tier):
    return broker_check("C01", tier, [("RoutingSpec", "cover", 3, 4, "mockSuccess"), ("RoutingSpec", "paths", 2, 3, "mockSuccess"), ("RoutingSpec", "paths", 2, 2, "mockSuccess", 1),
                                      ("SameSpec", "cover", 6, 7, "mockSuccess"), ("SameLastSpec", "paths", 5, 6, "mockSuccess"), ("BigSpec", "paths", 4, 5, "mockSuccess"), ("PathLastSpec", "paths", 4, 5, "mockSuccess"), ("SubsLastSpec", "paths", 5, 6, "mockSuccess")], {"C01"}, frag_item=1, rule=
                        "Broker specification, configuration routing: 2 network clients + 1 in-process subscriber, filters {a/b,a/+,a/#,#,+/b}, names "
                        "{a/b,a,a/b/c,c}, publish QoS x granted QoS in {0,1,2}^2, payloads tiny/empty/big; transition cover and all paths; after every "
                        "step the PUBLISH packets on every connection (topic, payload bytes, QoS, retain flag) are compared with the specification's bag. "
                        "Concurrent part: recorded runs with several raw publishers and two concurrent Server.Publish goroutines towards different subscriber "
                        "sets, validated by TLC against OutStreamTrace (every subscriber gets every message of every publisher it is subscribed to, in order, and nothing else).",
                        extra=lambda v: (fanin_validate(v, "C01", tier), q2many(v, tier, pid="C01", own={"C01"})))


def q2many(v, tier, pid="C02", own=None, orderonly=False):
    """many QoS 2 exchanges open at once: TLC -simulate behaviours of Q2ManySpec"""
    thorough = tier == "thorough"
    depth = 140 if not thorough else 220
    cfg = BROKER_CFG % dict(spec="Q2ManySpec", depth=depth, maxqos=2, cids="{k1, k2}", emit="EmitMany", view="")
    r = core.run_tlc("MCBroker", cfg.replace("PROPERTIES StepProps\n", ""), workers=8, timeout=900, simulate=2 if not thorough else 20, depth=depth + 3, tlc_seed=core.seed())
    v.tlc("Q2ManySpec(simulation)", r)
    behs = core.behaviours(r.lines)
    if not behs:
        raise Infra("Q2ManySpec simulation produced no behaviours")
    broker_replay(v, pid, behs, "many-open-exchanges(simulation%s)" % (", delivery order only" if orderonly else ""), own_tags=own or {"C02", "C01"}, orderonly=orderonly)


def fwdmany(v, tier, pid, own):
    """many QoS 1 deliveries to one subscriber outstanding (it acknowledges slowly): TLC -simulate behaviours of FwdManySpec"""
    thorough = tier == "thorough"
    depth = 100 if not thorough else 200
    cfg = BROKER_CFG % dict(spec="FwdManySpec", depth=depth, maxqos=2, cids="{k1, k2}", emit="EmitMany", view="")
    r = core.run_tlc("MCBroker", cfg.replace("PROPERTIES StepProps\n", ""), workers=8, timeout=900, simulate=2 if not thorough else 20, depth=depth + 3, tlc_seed=core.seed())
    v.tlc("FwdManySpec(simulation)", r)
    behs = core.behaviours(r.lines)
    if not behs:
        raise Infra("FwdManySpec simulation produced no behaviours")
    broker_replay(v, pid, behs, "many-outstanding-deliveries(simulation)", own_tags=own)


@check("C02")
def c02(tier):
    return broker_check("C02", tier, [("QosSpec", "paths", 6, 7, "mockSuccess"), ("QosStraySpec", "paths", 6, 7, "mockSuccess"), ("QosResumeSpec", "paths", 6, 7, "mockSuccess"), ("RetQ2Spec", "paths", 5, 6, "mockSuccess")], {"C02", "C01", "C08"},
                        "configuration qosrx: all operation sequences over QoS 2 PUBLISH (2 ids, DUP repeats with other content), PUBREL (3 ids incl. "
                        "unknown), QoS 1 PUBLISH and 6 KB unrelated traffic that wraps the ring; acks on the publisher, hand-over to a witness subscriber. "
                        "Configuration qosstray: two exchanges released in any order with stray PUBREC / PUBCOMP / PUBACK / SUBACK / UNSUBACK packets that carry "
                        "the identifier of an open exchange in between. Configuration qosresume: exchanges that span connections of one client identifier "
                        "(PUBLISH and PUBREC on one connection, PUBREL on the next; CleanSession 0 and 1, DISCONNECT and cut). "
                        "Plus TLC -simulate behaviours with up to 40 exchanges open at once (the incoming queue grows while its head has moved).",
                        extra=lambda v: (q2many(v, tier), answers_validate(v, "C02", tier)), frag_item=0)


@check("C07")
def c07(tier):
    return broker_check("C07", tier, [("SubsSpec", "cover", 5, 6, "mockSuccess"), ("SubsSpec", "paths", 2, 3, "mockSuccess"), ("SubsSpec", "cover", 4, 5, "mockSuccess", 1), ("SubsLastSpec", "paths", 5, 6, "mockSuccess"), ("SubsBigSpec", "paths", 3, 4, "mockSuccess"), ("Sess1LastSpec", "paths", 8, 9, "mockSuccess"), ("UnsubRaceSpec", "paths", 5, 6, "mockSuccess")], {"C07", "C01", "C08"},
                        "configuration subs: SUBSCRIBE requests with 1..9 filters incl. invalid filters and QoS 3, two packet ids, UNSUBSCRIBE lists of 1..9, "
                        "probe publishes from a second client; SUBACK/UNSUBACK bytes and subsequent deliveries compared. Concurrent regime: recorded runs with "
                        "subscription churn under load, every handled SUBSCRIBE / UNSUBSCRIBE answered exactly once with its identifier (AnswerTrace).", frag_item=1,
                        extra=lambda v: answers_validate(v, "C07", tier))


@check("C08")
def c08(tier):
    return broker_check("C08", tier, [("RetainSpec", "cover", 3, 4, "mockSuccess"), ("Retain1Spec", "paths", 4, 5, "mockSuccess"), ("RetTreeLastSpec", "paths", 5, 6, "mockSuccess"), ("RetDupLastSpec", "paths", 4, 5, "mockSuccess")], {"C08", "C01"},
                        "configuration retain: retained / non-retained / empty-payload publishes (QoS 0..2) on parent, child and sibling topics, replacement by "
                        "shorter and longer payloads, subscriptions with literal and wildcard filters (also two filters in one request, in-process subscriber); "
                        "packets after SUBACK and live forwards compared incl. retain flag, QoS, payload bytes. Concurrent part: recorded runs in which one client "
                        "rewrites a retained topic with self-describing payloads (generation number + filler) while another subscribes in a loop, validated by TLC against "
                        "OutStreamTrace: every retained packet is one complete generation, not older than what the broker had handled when the SUBSCRIBE was sent.",
                        extra=lambda v: (topics_ret_graph(v, tier == "thorough"), fanin_validate(v, "C08", tier)), frag_item=1)


def will_on_expiry(v, tier):
    """The keep-alive expiry as the reason of a connection's end (C09 names it): the KeepAlive schedules in which the client falls
    silent at once or after one packet, on a fresh session, a resumed one and next to a rival connection with the same client
    identifier, run in real time with K = 1 s: the connection ends and its will reaches the witness exactly once."""
    thorough = tier == "thorough"
    r = core.cached_tlc("keepalive4-%d" % (4 if thorough else 3), "KeepAlive", KA_CFG % (4 if thorough else 3), workers=1, timeout=600)
    v.tlc("KeepAlive", r)
    scheds = [s for s in core.behaviours(r.lines) if len(s) <= 2 and not s[0].get("deaf") and s[-1].get("expect") == "dropped"]
    if len(scheds) < 6:
        raise Infra("KeepAlive: only %d schedules that end in an expiry" % len(scheds))
    p = core.run_harness(["keepalive", "-k", "1", "-req", "1", "-unitms", "0", "-lanes", "48"], stdin_obj=scheds, timeout=900)
    if p.returncode != 0:
        raise Infra("keepalive failed: %s" % p.stderr[-2000:])
    res = json.loads(p.stdout.strip().splitlines()[-1])
    if res.get("counts", {}).get("infra"):
        raise Infra("keepalive harness: %s" % res.get("notes"))
    late = res.get("counts", {}).get("late", 0)
    if late * 5 > max(1, res.get("evaluations", 0)):
        raise Infra("keepalive harness: %d of %d schedules could not be kept in real time (machine too loaded)" % (late, res.get("evaluations", 0)))
    v.cov["parts"]["will-on-keep-alive-expiry(K=1s)"] = {"schedules": res.get("evaluations", 0), "mismatching": res.get("nmismatch", 0), "not_kept_in_real_time": late}
    v.cov["evaluations"] += res.get("evaluations", 0)
    v.cov["traces_validated_against_impl"] += res.get("evaluations", 0)
    for m in res.get("mismatches") or []:
        if not m.get("known"):
            m = dict(m, what="connection ending by keep-alive expiry: " + m.get("what", ""), tag="C09")
            v.mismatch(m)


@check("C09")
def c09(tier):
    return broker_check("C09", tier, [("WillSpec", "paths", 6, 7, "mockSuccess"), ("WillSpec", "cover", 7, 8, "mockSuccess"), ("WillEofSpec", "paths", 4, 6, "mockSuccess")], {"C09", "C01", "C08", "C07"},   # in this configuration every retained message is a will
                        "configuration will: all sequences of connect (CleanSession x {no will, QoS 0, QoS 1 + retain, QoS 2 + empty payload}) / end (DISCONNECT, "
                        "cut, malformed packet) on one client id, witness subscribed to '#'; the will deliveries per connection end are compared. "
                        "Keep-alive expiry as the end of a connection: KeepAlive schedules run in real time (will exactly once).", pipe_item=0,
                        extra=lambda v: will_on_expiry(v, tier))


@check("C10")
def c10(tier):
    return broker_check("C10", tier, [("SessSpec", "cover", 6, 7, "mockSuccess"), ("Sess1Spec", "paths", 6, 7, "mockSuccess"), ("Sess1LastSpec", "paths", 8, 10, "mockSuccess"), ("SessHalfSpec", "paths", 8, 9, "mockSuccess")], {"C10", "C01", "C07"},
                        "configuration session: connect (CleanSession 0/1) / subscribe / unsubscribe / DISCONNECT / cut over two client ids and two slots, probe "
                        "publishes; SessionPresent and deliveries to restored subscriptions compared.", frag_item=1, pipe_item=1)


@check("C11")
def c11(tier):
    return broker_check("C11", tier, [("AdmitSpec", "cover", 4, 5, "mockSuccess"), ("AdmitSpec", "paths", 2, 3, "mockSuccess"), ("FormSpec", "cover", 4, 5, "mockSuccess"), ("FormSpec", "paths", 2, 3, "mockSuccess"), ("AuthSpec", "cover", 3, 3, "mockFailure"), ("SelSpec", "cover", 6, 7, "verifSelective"), ("PwSpec", "paths", 4, 5, "verifPassword")], {"C11", "C01", "C10", "C07"},
                        "configuration admit: 14 kinds of refused first packets (unsupported level, name mismatch, client id too long / unprintable / empty with "
                        "CleanSession 0, reserved flag, will flags, other packet types, truncated CONNECT, garbage, bad fixed-header flags) with follow-up "
                        "SUBSCRIBE '#' and retained PUBLISH on the refused connection, accepting and rejecting authenticators; CONNACK bytes, closure, witness "
                        "deliveries and a late subscriber's retained view compared.", frag_item=1, pipe_item=0)


# ------------------------------------------------------------------------------------------ C19

KA_CFG = """SPECIFICATION Spec
CONSTANTS
 Gaps = {2, 4, 5, 9}
 LongGaps = {26}
 MaxSends = %d
 Kinds = {"ping", "pub", "part1", "part3", "partbig", "backlog"}
 BacklogHold = 14
 DevStalledReceiver = TRUE
 Priors = {"none", "long", "rival"}
INVARIANTS SilentDropped WillIffExpired Emit
PROPERTIES ActiveNeverDropped
"""


@check("C19")
def c19(tier):
    import random
    v = Verdict("C19", tier)
    thorough = tier == "thorough"
    r = core.cached_tlc("keepalive4-%d" % (4 if thorough else 3), "KeepAlive", KA_CFG % (4 if thorough else 3), workers=1, timeout=600)
    v.tlc("KeepAlive", r)
    scheds = core.behaviours(r.lines)
    rng = random.Random(core.seed())
    # always: silent from the start, silent after traffic, pinging at 0.4 K and 0.8 K, publishes only
    # always: silent from the start, regular pinging, and every (short gap, long gap) pair (an irregular
    # client: the deadline must be re-armed by EVERY packet); plus a seeded sample of the rest
    # (the variants "keeps receiving" and "resumes a session with another keep-alive" with at most one packet before the
    # silence, the plain client with up to two)
    fixed = [s for s in scheds if len(s) <= 2 or (len(s) == 3 and (not s[0].get("fed") or s[0].get("deaf")) and s[0].get("prior") == "none")]
    rest = [s for s in scheds if s not in fixed]
    rng.shuffle(rest)
    chosen = fixed + rest[:(16 if not thorough else 200)]
    # a CONNECT with keep-alive 0 gets the default (KeepAlive!Effective(0) = 30 s): the active prefixes of the schedules on
    # a finer grid (unit 0.4 s: every gap is far below K); thorough also the full grid of 3 s for a few schedules,
    # silence of 78 s included
    active = []
    for s in fixed:
        a = [x for x in s if x["expect"] == "up"]
        if a and a not in active:
            active.append(a)
    runs = [(1, 1, 0, chosen)] + ([(2, 2, 0, chosen[:40])] if thorough else []) + [(30, 0, 400, active)]
    if thorough:
        runs.append((30, 0, 0, [s for s in fixed if len(s) <= 2][:6]))
    for k, req, unitms, ss in runs:
        p = core.run_harness(["keepalive", "-k", str(k), "-req", str(req), "-unitms", str(unitms), "-lanes", "48" if not thorough else "64"], stdin_obj=ss, timeout=900)
        if p.returncode != 0:
            raise Infra("keepalive failed: %s" % p.stderr[-2000:])
        res = json.loads(p.stdout.strip().splitlines()[-1])
        if res.get("counts", {}).get("infra"):
            raise Infra("keepalive harness: %s" % res.get("notes"))
        late = res.get("counts", {}).get("late", 0)
        if late * 5 > max(1, res.get("evaluations", 0)):
            raise Infra("keepalive harness: %d of %d schedules could not be kept in real time (machine too loaded)" % (late, res.get("evaluations", 0)))
        v.cov["parts"]["K=%ds%s%s" % (k, " (CONNECT carries 0)" if req == 0 else "", " unit %d ms" % unitms if unitms else "")] = {"schedules": res.get("evaluations", 0), "steps": res.get("steps", 0), "mismatching": res.get("nmismatch", 0),
                                       "of_enumerated": len(scheds), "not_kept_in_real_time": late}
        v.cov["evaluations"] += res.get("evaluations", 0)
        v.cov["traces_validated_against_impl"] += res.get("evaluations", 0)
        v.cov["distinct_nontrivial"] += res.get("evaluations", 0)
        v.mismatches(res.get("mismatches"), res.get("counts"))
        v.add_samples(res.get("samples") or [], 2)
    v.cov["rule"] = ("client schedules enumerated by TLC from the KeepAlive specification (gaps of 0.2/0.4/0.5/0.9 K between PINGREQ or PUBLISH packets, regular and irregular, then "
                     "2.6 K of silence), run in real time against a real broker with KeepAlive 1 s (thorough: also 2 s): while active never closed and every "
                     "PINGREQ answered; after the silence closed not earlier than K after the last packet, and the will at the witness. distinct_nontrivial = schedules run")
    v.cov["exhaustive"] = False
    v.assumptions += ["real time with margins: 'active' gaps are at most 0.9 K (deadline 1.2 K), 'silent' is judged at 2.6 K; a loaded machine could in principle delay a packet by more than 0.4 K",
                      "quick runs the fixed patterns plus a seeded sample of the enumerated schedules"]
    return v.finish()


# ------------------------------------------------------------------------------------------ C05 / C16

FAULTS_CFG = """SPECIFICATION Spec
CONSTANTS
 Cross = %s
 SelfSub = %s
 WithAttacker = %s
 MaxSteps = %d
 WillKind = "%s"
INVARIANTS TypeOK EmitFull
"""
TEARDOWN_CFG = """SPECIFICATION Spec
CONSTANTS
 c1 = c1
 c2 = c2
 Conns = {c1, c2}
 InCap = 1
 OutCap = 1
 MaxSend = %d
 SubsOf <- %s
 WillOf <- %s
INVARIANTS AtDone LifeInv
PROPERTIES TornDown CloseReturns LifeRefined
"""


LIFE_CFG = """SPECIFICATION TraceSpec
CONSTANTS MaxConn = %d
INVARIANTS AtDone WillDealtWith NeverAfterDisconnect
POSTCONDITION Accepted
"""


def life_validate(v, pid, label, text):
    """Recorded life-cycle events of real connections (hook verifLife) against spec/LifeTrace.tla = actions of spec/Life.tla,
    the skeleton that Teardown refines. Rejections at a will step are C09's observable, everything else is C16's."""
    lines = text.splitlines()
    part = v.cov["parts"].setdefault("life-traces", {"recordings": 0, "events": 0, "rejected": 0})
    if not lines:
        return
    maxc = 1
    for ln in lines:
        c = json.loads(ln)["c"]
        maxc = max(maxc, c)
    ok, matched, reports, why = validate_trace(v, "LifeTrace", LIFE_CFG % maxc, text, "LifeTrace:" + label, "connection life cycle", timeout=900)
    nrec = sum(1 for ln in lines if '"reset"' in ln)
    part["recordings"] += nrec
    part["events"] += len(lines)
    v.cov["traces_validated_against_impl"] += nrec
    v.cov["evaluations"] += len(lines)
    if ok:
        return
    part["rejected"] += 1
    if reports:
        matched = reports[-1]["report"]["matched"]
    # the event that could not be taken (or after which an invariant failed) and the events of its connection before it
    k = min(max(matched, 0), len(lines) - 1)
    if "Invariant" in (why or "") and k > 0:
        k -= 1
    bad = json.loads(lines[k])
    start = k
    while start > 0 and '"reset"' not in lines[start - 1]:
        start -= 1
    hist = [json.loads(x) for x in lines[start:k + 1]]
    mine = [h["e"] + ("(w=1)" if h.get("w") else "") for h in hist if h["c"] == bad["c"]]
    willish = bad["e"] in ("stop.will",) or (bad["e"] == "stop.done" and "Invariant" not in (why or "")) or "Will" in (why or "") or "NeverAfter" in (why or "")
    owner = "C09" if willish else "C16"
    what = ("recorded life cycle of a broker connection is not a behaviour of the Life specification (%s): event %d %s of connection %d cannot follow [%s]"
            % (why or "no enabled action", k + 1, bad["e"] + ("(will flag set)" if bad.get("w") else ""), bad["c"], " ".join(mine[:-1])[-700:]))
    if bad["e"] == "reset":
        unfinished = sorted({h["c"] for h in hist if h["e"] == "start"} - {h["c"] for h in hist if h["e"] == "stop.done"})
        what = ("recorded life cycle: all connections of the broker had been ended, but the teardown of connection(s) %s never finished (events of the first: [%s])"
                % (unfinished, " ".join(h["e"] for h in hist if unfinished and h["c"] == unfinished[0])[-600:]))
        owner = "C16"
    m = {"what": what, "tag": owner, "replay": {"configuration": label, "events": hist[-60:]}}
    if owner == pid or (pid in ("C09", "C16") and owner in ("C09", "C16") and pid == owner):
        v.mismatch(m)
    else:
        v.notes.append("life trace rejected on an observable of %s: %s" % (owner, what[:300]))


def faults_run(v, pid, plan):
    for item in plan:
        cross, selfsub, att, d = item[:4]
        wk = item[4] if len(item) > 4 else "none"
        name = "faults-%s-%s-%s-%d%s" % (cross, selfsub, att, d, "" if wk == "none" else "-will-" + wk)
        r = core.cached_tlc(name, "Faults", FAULTS_CFG % (cross, selfsub, att, d, wk), workers=1, timeout=600)
        v.tlc(name, r)
        scen = core.behaviours(r.lines)
        lifedir = tempfile.mkdtemp(prefix="verif-life-")
        try:
            results = core.run_sharded(["faults", "-own", pid, "-life", os.path.join(lifedir, "life{shard}.ndjson")], scen, timeout=2400, died_is_result=True)
            lifetext = ""
            for fn in sorted(os.listdir(lifedir)):
                with open(os.path.join(lifedir, fn)) as f:
                    t = f.read()
                # a shard that died leaves a file without its last recording: keep the complete recordings only
                cut = t.rfind('{"e":"reset"')
                if cut >= 0:
                    lifetext += t[:t.index("\n", cut) + 1]
        finally:
            import shutil
            shutil.rmtree(lifedir, ignore_errors=True)
        if pid in ("C16", "C09"):
            life_validate(v, pid, name, lifetext)
        died = [x for x in results if x.get("died")]
        res = core.merge([x for x in results if not x.get("died")])
        for x in died:
            if pid == "C05" and "panic" in (x.get("stderr") or "") + (x.get("stdout") or "") or pid == "C05" and x.get("exit") == 2:
                # the broker runs inside the child: a dead child is the observation 'the broker process died'
                err = x.get("stderr") or ""
                head = [l for l in err.splitlines() if "fatal error" in l or l.startswith("panic:") or "out of memory" in l][:2] + [l.strip() for l in err.splitlines() if "go-mqtt/" in l][:2]
                v.mismatch({"what": "the broker process died while a fault sequence was executed (exit %s): %s" % (
                    x.get("exit"), " | ".join(head)[:400] or err[:300].replace("\n", " | ")), "replay": {"shard": x.get("shard"), "configuration": name}})
            else:
                raise Infra("faults harness child died (exit %s): %s" % (x.get("exit"), (x.get("stderr") or "")[:600]))
        if res.get("counts", {}).get("infra"):
            raise Infra("faults harness: %s" % res.get("notes")[:3])
        mine = [m for m in res.get("mismatches", []) if m.get("tag") == pid]
        foreign = [m for m in res.get("mismatches", []) if m.get("tag") != pid]
        v.cov["parts"][name] = {"sequences": res.get("evaluations", 0), "steps": res.get("steps", 0), "mismatching": res.get("nmismatch", 0),
                                "own": len(mine), "diverged_foreign": len(foreign), "unreproduced": res.get("counts", {}).get("unreproduced", 0),
                                "skipped_after_violation": res.get("counts", {}).get("skipped_after_violation", 0)}
        v.cov["evaluations"] += res.get("evaluations", 0)
        v.cov["traces_validated_against_impl"] += res.get("evaluations", 0)
        v.cov["distinct_nontrivial"] += res.get("evaluations", 0)
        v.mismatches(mine)
        if foreign:
            v.notes.append("%s: %d sequences diverged on observables of another property, e.g. %s" % (name, len(foreign), foreign[0]["what"][:200]))
        v.add_samples(res.get("samples") or [], 1)
        for n in res.get("notes", [])[:3]:
            v.notes.append(n)


@check("C16")
def c16(tier):
    v = Verdict("C16", tier, level="model_checking")
    thorough = tier == "thorough"
    # design: the teardown / flow-control fragment, liveness under fairness
    for name, maxsend, subs, wills in [("teardown-pub-sub", 2, "PubSubSubs", "WillFirst")] + (
            [("teardown-cross", 2, "CrossSubs", "WillBoth")] if thorough else []):
        cfg = TEARDOWN_CFG % (maxsend, subs, wills)
        r = core.cached_tlc(name, "MCTeardown", cfg, workers=8, timeout=2400)
        v.tlc(name, r)
    ring_close_replay(v, {"C15"})
    ring_edge(v, {"C15"})     # incl. Close against a waiter that is between its test of the closed flag and its Wait
    faults_run(v, "C16", [("FALSE", "FALSE", "FALSE", 3 if not thorough else 4), ("TRUE", "FALSE", "FALSE", 3 if not thorough else 4),
                          ("FALSE", "TRUE", "FALSE", 4 if not thorough else 5),
                          ("FALSE", "FALSE", "FALSE", 2 if not thorough else 3, "small"), ("FALSE", "FALSE", "FALSE", 2 if not thorough else 3, "big"), ("FALSE", "FALSE", "FALSE", 2 if not thorough else 3, "mid"),
                          ("TRUE", "FALSE", "FALSE", 2 if not thorough else 3, "small")])
    v.cov["rule"] = ("TLC: leads-to 'ended ~> torn down' and 'Server.Close ~> returned' under fairness on the Teardown specification (goroutine life cycles, ring capacities, "
                     "fan-out that blocks on a full open ring, will fan-out inside teardown). Replay: every fault sequence of bounded length enumerated by TLC from Faults (bursts of 6 KB "
                     "publishes into 16 KiB rings, peers that stop reading, DISCONNECT / cut / malformed / oversized packet, Server.Close, both orders of ending) on a real broker: "
                     "teardown-finished events, return of Server.Close, goroutine dump filtered to library frames. distinct_nontrivial = sequences executed")
    v.cov["exhaustive"] = True
    v.assumptions += ["'bounded time' is judged with a 6 s deadline; a stalled step counts only if it reproduces on a second run of the same sequence",
                      "intermediate expectations only where no open connection has stopped reading (sufficient condition for the property's proviso); at the end of every sequence all peers are gone and everything must be torn down"]
    return v.finish()


@check("C05")
def c05(tier):
    v = Verdict("C05", tier, level="fault_enumeration")
    thorough = tier == "thorough"
    faults_run(v, "C05", [("FALSE", "FALSE", "TRUE", 2 if not thorough else 3), ("TRUE", "FALSE", "TRUE", 2 if not thorough else 3),
                          ("FALSE", "TRUE", "FALSE", 3 if not thorough else 4),
                          ("FALSE", "FALSE", "FALSE", 3 if not thorough else 4)])   # without attacker: sudden disconnects under load, bystanders must stay served
    # the gated race of a delivery with the teardown of its target (yield point wm.checked)
    p = core.run_harness(["race", "-n", "10" if not thorough else "100"], timeout=600)
    if p.returncode != 0:
        v.mismatch({"what": "the broker process died in the delivery/teardown race: %s" % p.stderr[:300].replace("\n", " | "), "replay": {"schedule": "wm.checked race"}})
    else:
        res = json.loads(p.stdout.strip().splitlines()[-1])
        if res.get("counts", {}).get("infra"):
            raise Infra("race harness: %s" % res.get("notes")[:2])
        account(v, res, "delivery-vs-teardown-race(gated)")
    # a subscriber whose incoming direction is dead, among live ones: nobody else notices
    behs = broker_behaviours(v, "HalfSpec", 5 if not thorough else 6, "paths")
    broker_replay(v, "C05", behs, "HalfSpec(paths,%d)" % (5 if not thorough else 6), own_tags={"C05", "C01", "C08", "C07"})
    # a subscriber that acknowledges slowly: the publisher, whose processor fills the subscriber's request queue, is not hurt
    fwdmany(v, tier, "C05", {"C05", "C01", "C12", "C02"})
    # the first-packet classes of the Broker specification run in child processes: a dead child is the observation 'the broker process died'
    behs = broker_behaviours(v, "AdmitSpec", 3 if not thorough else 4, "cover")
    results = core.run_sharded(["brokerreplay"], behs, timeout=1200, died_is_result=True)
    died = [x for x in results if x.get("died")]
    res = core.merge([x for x in results if not x.get("died")])
    v.cov["parts"]["first-packets-in-child-processes"] = {"behaviours": len(behs), "children": len(results), "children_died": len(died)}
    v.cov["evaluations"] += len(behs)
    for x in died:
        v.mismatch({"what": "the broker process died while handling hostile input (exit %s): %s" % (x.get("exit"), (x.get("stderr") or "")[:300].replace("\n", " | ")),
                    "replay": {"shard": x.get("shard")}})
    v.mismatches([m for m in res.get("mismatches", []) if m.get("tag") in ("C05", "C11")])
    v.cov["rule"] = ("fault enumeration: 12 kinds of hostile input (garbage / truncated / oversized / cut at byte boundaries, before and after CONNECT, second CONNECT, zero-length topic) at "
                     "every position of every fault sequence of Faults (bursts, stalled readers, ends of other connections), plus the 14 refused-first-packet kinds of the Broker "
                     "specification in child processes: the process stays alive, a witness publisher/subscriber pair keeps receiving exactly its own traffic after every step. "
                     "distinct_nontrivial = sequences executed")
    v.cov["exhaustive"] = True
    v.assumptions += ["timing of a teardown relative to foreign deliveries is whatever the scheduler produces (the ring-pointer race is exercised by bursts towards connections that are being cut)"]
    return v.finish()


# ------------------------------------------------------------------------------------------ C17 (and the concurrent parts of C01 / C08)

OUTSTREAM_CFG = """SPECIFICATION Spec
CONSTANTS
 Conns = {"s0", "s1", "s2", "p0", "p1", "p2", "p3", "p4", "rw", "rs"}
 Pubs = {0, 1, 2, 3, 4, 7, 8}
INVARIANTS Report
POSTCONDITION Accepted
"""


def fanin_validate(v, pid, tier):
    thorough = tier == "thorough"
    runs, msgs = (30, 40) if not thorough else (200, 40)
    extra_args = []
    if pid == "C08":
        # only the retained rewriter and the re-subscriber, many rounds (the race window is narrow)
        runs, msgs = (10, 600) if not thorough else (60, 1500)
        extra_args = ["-retonly", "1"]
    tmp = tempfile.mkdtemp(prefix="verif-fanin-")
    try:
        tf = os.path.join(tmp, "trace.ndjson")
        p = core.run_harness(["fanin", "-seed", str(core.seed()), "-runs", str(runs), "-msgs", str(msgs), "-out", tf] + extra_args, timeout=1800)
        if p.returncode != 0:
            err = p.stderr or ""
            if ("panic:" in err or "fatal error:" in err) and "go-mqtt/" in err:
                # the broker runs inside the recorder: it died under concurrent use
                lines = [l for l in err.splitlines() if l.strip()]
                v.mismatch({"what": "the broker crashed during a recorded concurrent run: %s" % " | ".join(lines[:2] + [l.strip() for l in lines if "go-mqtt/" in l][:3])[:500],
                            "replay": {"seed": core.seed(), "runs": runs, "msgs": msgs}})
                return False
            raise Infra("fanin recorder failed: %s" % err[-2000:])
        res = json.loads(p.stdout.strip().splitlines()[-1])
        if res.get("counts", {}).get("infra"):
            raise Infra("fanin recorder: %s" % res.get("notes")[:2])
        text = open(tf).read()
    finally:
        import shutil
        shutil.rmtree(tmp, ignore_errors=True)
    # each property validates its own view of the same recording, so that a rejection on the other
    # property's events does not leave the rest of the trace unexamined
    own = ("put", "acc", "got", "reset") if pid == "C08" else ("enq", "recv", "bad", "reset")
    lines = [ln for ln in text.splitlines() if json.loads(ln).get("e") in own]
    text = "\n".join(lines) + "\n"
    ok, matched, reports, why = validate_trace(v, "OutStreamTrace", OUTSTREAM_CFG, text, "OutStreamTrace", "outgoing streams")
    v.cov["parts"]["recorded-concurrent-runs"] = {"runs": runs, "events": len(lines), "matched_prefix": matched,
                                                  "spec_report": reports[-1]["report"] if reports else None,
                                                  "stuck_runs": res.get("counts", {}).get("stuck_runs", 0)}
    v.cov["traces_validated_against_impl"] += runs
    v.cov["evaluations"] += len(lines)
    v.cov["distinct_nontrivial"] += len(lines)
    if res.get("counts", {}).get("stuck_runs"):
        v.notes.append("recorder: %s" % res.get("notes")[:2])
    if not ok:
        ev = lines[matched - 1] if 0 < matched <= len(lines) else "?"
        kind = json.loads(ev).get("e") if ev != "?" else "?"
        owner = "C08" if kind in ("got", "put") else (pid if pid in ("C01", "C14") else "C17")
        lo = max(0, matched - 8)
        m = {"what": "recorded run rejected by OutStreamTrace at event %d (%s): %s" % (matched, why, ev),
             "tag": owner, "replay": {"seed": core.seed(), "events": lines[lo:matched + 1]}}
        if owner == pid:
            v.mismatch(m)
        else:
            v.notes.append("trace rejected on an observable of %s: %s" % (owner, m["what"][:200]))
            v.cov["diverged_foreign"] = v.cov.get("diverged_foreign", 0) + 1
    v.add_samples([json.loads(x) for x in lines[200:204]], 4)
    return ok


ANSWER_CFG = """SPECIFICATION Spec
CONSTANTS
 Conns = {"s0", "s1", "s2", "p0", "p1", "p2", "p3", "p4", "rw", "rs"}
INVARIANTS Report
POSTCONDITION Accepted
"""
ANSWER_OWNER = {3: "C02", 6: "C02", 5: "C12", 8: "C07", 10: "C07", 12: "C19"}


def answers_validate(v, pid, tier):
    """Concurrent regime of 'every request is answered exactly once with its identifier': recorded runs of a real broker
    (publishers at QoS 0/1/2, subscription churn, PINGREQs) validated by TLC against AnswerTrace."""
    thorough = tier == "thorough"
    runs, msgs = (12, 40) if not thorough else (120, 40)
    tmp = tempfile.mkdtemp(prefix="verif-answers-")
    try:
        tf = os.path.join(tmp, "trace.ndjson")
        p = core.run_harness(["fanin", "-seed", str(core.seed() + 17), "-runs", str(runs), "-msgs", str(msgs), "-out", tf], timeout=1800)
        if p.returncode != 0:
            raise Infra("fanin recorder failed: %s" % (p.stderr or "")[-2000:])
        res = json.loads(p.stdout.strip().splitlines()[-1])
        if res.get("counts", {}).get("infra"):
            raise Infra("fanin recorder: %s" % res.get("notes")[:2])
        text = open(tf).read()
    finally:
        import shutil
        shutil.rmtree(tmp, ignore_errors=True)
    lines = []
    for ln in text.splitlines():
        e = json.loads(ln)
        if e.get("e") in ("proc", "quiet", "reset") or (e.get("e") == "enq" and e.get("ty") != 3):
            lines.append(json.dumps({"e": e["e"], "s": e.get("s", ""), "ty": e.get("ty", 0), "id": e.get("id", 0)}))
    ok, matched, reports, why = validate_trace(v, "AnswerTrace", ANSWER_CFG, "\n".join(lines) + "\n", "AnswerTrace", "answers under concurrent load")
    rep = reports[-1]["report"] if reports else None
    v.cov["parts"]["answers-in-recorded-concurrent-runs"] = {"runs": runs, "events": len(lines), "matched_prefix": matched, "spec_report": rep,
                                                             "stuck_runs": res.get("counts", {}).get("stuck_runs", 0)}
    v.cov["traces_validated_against_impl"] += runs
    v.cov["evaluations"] += len(lines)
    if ok and rep and rep.get("answered", 0) < 50:
        raise Infra("AnswerTrace: only %s answered packets in the recording" % rep.get("answered"))
    if not ok:
        k = min(max(matched - 1, 0), len(lines) - 1)
        ev = json.loads(lines[k])
        # the packet whose answer is wrong: the proc event at (or, for 'quiet', before) the rejection
        owner = ANSWER_OWNER.get(ev.get("ty"), pid) if ev.get("e") == "proc" else pid
        lo = k
        while lo > 0 and not (json.loads(lines[lo - 1]).get("e") == "proc" and json.loads(lines[lo - 1]).get("s") == ev.get("s")) and k - lo < 400:
            lo -= 1
        since = [json.loads(x) for x in lines[lo:k + 1] if json.loads(x).get("s") == ev.get("s")]
        what = ("recorded concurrent run rejected by AnswerTrace at event %d (%s): connection %s handled packet type %s id %s; packets other than PUBLISH it enqueued since its previous packet: %s"
                % (matched, why, ev.get("s"), ev.get("ty"), ev.get("id"), [(x["ty"], x["id"]) for x in since if x["e"] == "enq"]))
        if ev.get("e") == "quiet":
            what = "recorded concurrent run: all traffic was sent and every connection is open, but a handled request was never answered (AnswerTrace!Quiet, event %d)" % matched
        m = {"what": what, "tag": owner, "replay": {"seed": core.seed() + 17, "events": lines[max(0, k - 12):k + 1]}}
        if owner == pid:
            v.mismatch(m)
        else:
            v.notes.append("answer trace rejected on an observable of %s: %s" % (owner, what[:200]))
            v.cov["diverged_foreign"] = v.cov.get("diverged_foreign", 0) + 1
    return ok


@check("C17")
def c17(tier):
    v = Verdict("C17", tier)
    fanin_validate(v, "C17", tier)
    # packets stay whole only if the ring never hands out room that still holds unsent bytes: its guards to the byte
    ring_edge(v, {"C14"})
    # publisher order with many QoS 2 exchanges open at once (the receiver's queue of stored messages grows and wraps):
    # the order in which the witness receives the messages is compared with the order of the specification's hand-overs
    q2many(v, tier, "C17", {"C17"}, orderonly=True)
    v.cov["rule"] = ("recorded runs of a real broker with 2-4 raw publishers + Server.Publish, 1-2 shared subscribers, 16 KiB rings, payload sizes that make the outgoing ring wrap "
                     "mid-packet, QoS 0/1/2, plus retained rewriting and subscription churn; every enq hook event (under the write mutex, before the ring commit) and every packet "
                     "strictly parsed by a client is one event; TLC validates the log against OutStreamTrace (whole packets: each received packet is the head of the connection's "
                     "stream; publisher order: consecutive sequence numbers per publisher and subscriber). distinct_nontrivial = events validated")
    v.cov["exhaustive"] = False
    v.assumptions += ["interleavings are whatever 16 cores produce: every observed one is checked completely, the set is not controlled",
                      "the enq hook sits under the connection's write mutex immediately before the ring commit (a hook after the commit can be overtaken by the reader)"]
    return v.finish()


# ------------------------------------------------------------------------------------------ C12 / C20 (client role)

CLIENT_CFG = """SPECIFICATION %(spec)s
CONSTANTS
 MixedLevels = {}
 MaxSteps = %(depth)d
 MaxReq = %(maxreq)d
 DevRegisterAfterWrite = %(dev)s
 DedupDispatch = TRUE
 NoCb = {1, 4}
INVARIANTS TypeOK %(emit)s
PROPERTIES CompleteOnce NotBeforeAck DispatchSound
%(view)s
"""


def client_behaviours(v, spec, depth, maxreq, mode, dev="FALSE"):
    cfg = CLIENT_CFG % dict(spec=spec, depth=depth, maxreq=maxreq, dev=dev, emit="Emit" if mode == "cover" else "EmitFull",
                            view="VIEW CoverView" if mode == "cover" else "")
    r, behs = core.cached_tlc_file("client-%s-%s-%d-%d" % (spec, mode, depth, maxreq), "MCClient", cfg,
                                   leaves_key=(lambda x: [s["a"] for s in x]) if mode == "cover" else None, workers=1, timeout=2400)
    v.tlc("%s(%s, depth %d, %d requests)" % (spec, mode, depth, maxreq), r)
    return behs


def client_replay(v, pid, behs, label, own, extra=None):
    if len(behs) == 0:
        raise Infra("%s: the specification produced no behaviours to replay" % label)
    res = core.merge(core.run_sharded(["clientreplay"] + (extra or []), behs, timeout=2400))
    if res.get("counts", {}).get("infra"):
        raise Infra("client harness: %s" % res.get("notes")[:2])
    mine = [m for m in res.get("mismatches", []) if m.get("tag") in own]
    foreign = [m for m in res.get("mismatches", []) if m.get("tag") not in own]
    v.cov["parts"][label] = {"behaviours": res.get("evaluations", 0), "steps": res.get("steps", 0), "mismatching": res.get("nmismatch", 0),
                             "own": len(mine), "diverged_foreign": len(foreign)}
    v.cov["evaluations"] += res.get("evaluations", 0)
    v.cov["traces_validated_against_impl"] += res.get("evaluations", 0)
    v.cov["distinct_nontrivial"] += res.get("evaluations", 0)
    v.mismatches(mine, {k: n for k, n in res.get("counts", {}).items() if k.startswith("known:") and k != "known:"})
    if foreign:
        v.notes.append("%s: %d behaviours diverged on observables of another property, e.g. %s" % (label, len(foreign), foreign[0]["what"][:200]))
    v.add_samples(res.get("samples") or [], 1)


@check("C12")
def c12(tier):
    v = Verdict("C12", tier)
    thorough = tier == "thorough"
    behs = client_behaviours(v, "SenderSpec", 6 if not thorough else 7, 3, "cover")
    client_replay(v, "C12", behs, "sender(cover)", {"C12", "C02"})
    behs = client_behaviours(v, "SenderSpec", 4 if not thorough else 5, 2, "paths")
    client_replay(v, "C12", behs, "sender(paths)", {"C12", "C02"})
    # many requests outstanding: long random behaviours (TLC -simulate), the ack queues grow while their heads have moved
    # (a behaviour is printed when it reaches the depth: requests + acknowledgements must be able to fill it, depth <= 2 * maxreq)
    cfg = CLIENT_CFG % dict(spec="ManySpec", depth=120 if not thorough else 200, maxreq=60 if not thorough else 100, dev="FALSE", emit="EmitMany", view="")
    r = core.run_tlc("MCClient", cfg, workers=8, timeout=900, simulate=3 if not thorough else 30, depth=(120 if not thorough else 200) + 3, tlc_seed=core.seed())
    v.tlc("ManySpec(simulation)", r)
    behs = core.behaviours(r.lines)
    if not behs:
        raise Infra("ManySpec simulation produced no behaviours")
    client_replay(v, "C12", behs, "many-outstanding(simulation)", {"C12", "C02"})
    # automatic identifiers over more than one period of the process-wide counter: consecutive ones are distinct
    p = core.run_harness(["codecids", "-n", "131073" if not thorough else "300000"], timeout=600)
    if p.returncode != 0:
        raise Infra("codecids failed: %s" % p.stderr[-2000:])
    account(v, json.loads(p.stdout.strip().splitlines()[-1]), "automatic-packet-ids(distinct)", own={"C12"})
    # schedules of the named deviation: the acknowledgement is processed while the sending call is held
    # at the yield point between write and register
    behs = client_behaviours(v, "DevSpec", 4 if not thorough else 5, 2, "paths", dev="TRUE")
    client_replay(v, "C12", behs, "ack-before-register(gated)", {"C12", "C02"}, ["-dev", "1"])
    # broker -> subscriber direction: PUBREL follows the subscriber's PUBREC with the same identifier
    behs = broker_behaviours(v, "FwdSpec", 6 if not thorough else 7, "paths")
    broker_replay(v, "C12", behs, "broker-as-sender(paths)", own_tags={"C12", "C02", "C01"})
    fwdmany(v, tier, "C12", {"C12", "C02", "C01", "C05"})
    # broker -> subscriber direction: identifiers of requests simultaneously in flight
    p = core.run_harness(["fwdids", "-reps", "3" if not thorough else "20"], timeout=300)
    if p.returncode != 0:
        raise Infra("fwdids failed: %s" % p.stderr[-1500:])
    res = json.loads(p.stdout.strip().splitlines()[-1])
    if res.get("counts", {}).get("infra"):
        raise Infra("fwdids: %s" % res.get("notes")[:2])
    account(v, res, "forwarded-identifiers")
    v.cov["rule"] = ("Client specification, sender side: up to 3 requests (PUBLISH QoS 0/1/2, SUBSCRIBE, UNSUBSCRIBE, PINGREQ) outstanding, the scripted peer acknowledges in every "
                     "order incl. duplicates and identifiers not in flight (transition cover depth 6/7, all paths depth 4/5); PUBREL after PUBREC, completion callbacks in "
                     "order, exactly once, identifiers of requests in flight non-zero and distinct. Gated schedules of the named deviation (ack processed between write and "
                     "register). Broker side: two publishers with the same identifier towards a subscriber that withholds its acks. distinct_nontrivial = behaviours replayed")
    v.cov["exhaustive"] = True
    v.assumptions += ["library Client over loopback TCP against a scripted peer; the processor's progress is observed through the proc hook",
                      "two recorded known findings (known_findings.txt): ack-before-register loses the completion; forwarded PUBLISH keeps the publisher's identifier"]
    return v.finish()


@check("C20")
def c20(tier):
    v = Verdict("C20", tier)
    thorough = tier == "thorough"
    p = core.run_harness(["clientconnect", "-reps", "2" if not thorough else "10"], timeout=600)
    if p.returncode != 0:
        raise Infra("clientconnect failed: %s" % p.stderr[-1500:])
    account(v, json.loads(p.stdout.strip().splitlines()[-1]), "connect-results")
    # Connect over histories of one client identifier (refused, dropped by the server, disconnected, connected again)
    d = 3 if not thorough else 4
    r = core.cached_tlc("clientconn-%d" % d, "ClientConn", "SPECIFICATION Spec\nCONSTANTS\n MaxSteps = %d\nINVARIANTS NothingLeft ResultByAnswer EmitFull\n" % d, workers=1, timeout=600)
    v.tlc("ClientConn(paths, %d)" % d, r)
    hs = core.behaviours(r.lines)
    if len(hs) < 20:
        raise Infra("ClientConn: only %d histories" % len(hs))
    p = core.run_harness(["clientconnhist"], stdin_obj=hs, timeout=900)
    if p.returncode != 0:
        raise Infra("clientconnhist failed: %s" % p.stderr[-1500:])
    account(v, json.loads(p.stdout.strip().splitlines()[-1]), "connect-histories")
    v.cov["distinct_nontrivial"] += len(hs)
    behs = client_behaviours(v, "DispSpec", 5 if not thorough else 6, 2, "cover")
    client_replay(v, "C20", behs, "dispatch(cover)", {"C20", "C12", "C02"})
    behs = client_behaviours(v, "DispSpec", 3 if not thorough else 4, 2, "paths")
    client_replay(v, "C20", behs, "dispatch(paths)", {"C20", "C12", "C02"})
    behs = client_behaviours(v, "TreeLastSpec", 5 if not thorough else 6, 4, "paths")
    client_replay(v, "C20", behs, "local-tree-histories(paths)", {"C20", "C12", "C02"})
    behs = client_behaviours(v, "InStraySpec", 7 if not thorough else 8, 1, "paths")
    client_replay(v, "C20", behs, "inbound-qos2-with-stray-acks(paths)", {"C20", "C12", "C02"})
    # many inbound QoS 2 exchanges open at once (the queue of incoming exchanges grows while its head has moved)
    depth = 120 if not thorough else 200
    cfg = CLIENT_CFG % dict(spec="InManySpec", depth=depth, maxreq=1, dev="FALSE", emit="EmitMany", view="")
    r = core.run_tlc("MCClient", cfg, workers=8, timeout=900, simulate=3 if not thorough else 30, depth=depth + 3, tlc_seed=core.seed())
    v.tlc("InManySpec(simulation)", r)
    behs = core.behaviours(r.lines)
    if not behs:
        raise Infra("InManySpec simulation produced no behaviours")
    client_replay(v, "C20", behs, "many-inbound-exchanges(simulation)", {"C20", "C12", "C02"})
    v.cov["rule"] = ("Client.Connect against CONNACK code 0..5, session present, invalid code, wrong packet, truncated, closed: nil exactly for code 0, else the code, no library "
                     "goroutine left. Client specification, dispatch: Subscribe requests with overlapping filters (a/#, a/+), f/# against f, rejected filters (0x80), Unsubscribe, "
                     "inbound PUBLISH QoS 0..2 with DUP repeats, matching and non-matching topics; per step the invocations of every request's callback are compared with the "
                     "specification (exactly once per delivered message). distinct_nontrivial = behaviours replayed")
    v.cov["exhaustive"] = True
    v.assumptions += ["library Client over loopback TCP against a scripted peer", "SUBACKs carry as many return codes as the request has filters (a well-behaved server)"]
    return v.finish()


# ------------------------------------------------------------------------------------------ misc

def setup():
    core.build_harness()
    print("harness built")
    return 0


def baseline():
    """Repository test suite with the verif tag OFF; the stable baseline tests must all pass.

    The pinned suite has a race of its own: TestServiceConnectSuccess (an always-failing test) leaves a
    goroutine behind that may call t.Fail after the test has completed, which makes the test binary of
    package service panic at a random later point and takes whatever test is running with it (most
    often TestServiceConnectAuthError). The run is therefore repeated, up to 6 times, until every
    baseline test has passed in some run; a test that never passes is reported."""
    want = [l.strip() for l in open(os.path.join(core.ROOT, "lib", "baseline_tests.txt")) if l.strip()]
    passed_any = set()
    runs = 0
    while runs < 6:
        runs += 1
        p = subprocess.run("cd %s && go test -p 1 -json -vet=off -count=1 -timeout 180s ./..." % core.REPO, shell=True,
                           env=core.goenv(), stdout=subprocess.PIPE, stderr=subprocess.STDOUT, text=True)
        passed, failed = set(), set()
        for ln in p.stdout.splitlines():
            try:
                e = json.loads(ln)
            except ValueError:
                continue
            if e.get("Test") and e.get("Action") in ("pass", "fail"):
                (passed if e["Action"] == "pass" else failed).add(e["Package"] + "::" + e["Test"])
        if runs == 1:
            sys.stdout.write(p.stdout)
        passed_any |= passed
        missing = [t for t in want if t not in passed_any]
        print("baseline run %d: %d of %d stable tests passed in this run, %d not yet seen passing" % (
            runs, len([t for t in want if t in passed]), len(want), len(missing)))
        if not missing:
            break
    for t in missing:
        print("BASELINE-MISSING %s" % t)
    print("baseline: %d of %d stable tests pass with the verif tag off (%d run(s))" % (len(want) - len(missing), len(want), runs))
    return 1 if missing else 0
