#!/usr/bin/env python3
"""Seeded changes (mutants) written by independent sub-agents.

  python3 lib/seeded.py import <worktree> <id>   copy patch.diff / demo / meta.json into seeded/<id>/
  python3 lib/seeded.py verify <id>              confirm in a scratch worktree: compiles, baseline tests pass, demo fails with / passes without
  python3 lib/seeded.py run <id> [tier]          apply to /repo, run the owning property's check, undo; record the outcome in meta.json
  python3 lib/seeded.py runall [tier]
"""
import json
import os
import re
import shutil
import subprocess
import sys

ROOT = os.path.dirname(os.path.dirname(os.path.abspath(__file__)))
SEEDED = os.path.join(ROOT, "seeded")
ENV = dict(os.environ, GOFLAGS="-mod=mod", GOPROXY="off", GOSUMDB="off", GOTOOLCHAIN="local")


def sh(cmd, cwd=None, timeout=900):
    p = subprocess.run(cmd, shell=True, cwd=cwd, env=ENV, stdout=subprocess.PIPE, stderr=subprocess.STDOUT, text=True, timeout=timeout)
    return p.returncode, p.stdout


def apply_patch(cwd, path):
    """git apply; patches written before later hook lines were added to the repository are merged three-way."""
    rc, out = sh("git apply %s" % path, cwd=cwd)
    if rc != 0:
        rc, out2 = sh("git apply -3 %s" % path, cwd=cwd)
        if rc == 0:
            sh("git reset -q", cwd=cwd)   # -3 stages the result
        else:
            if cwd != "/repo":
                sh("git reset -q --hard HEAD", cwd=cwd)   # a failed three-way merge leaves unmerged entries
            else:
                sh("git reset -q && git checkout -- .", cwd=cwd)
            out += out2
    return rc, out


def do_import(wt, sid):
    d = os.path.join(SEEDED, sid)
    os.makedirs(d, exist_ok=True)
    shutil.copy(os.path.join(wt, "patch.diff"), d)
    meta = json.load(open(os.path.join(wt, "meta.json")))
    demo = os.path.join(wt, "demo_test.go.txt")
    shutil.copy(demo, os.path.join(d, "demo_test.go.txt"))
    # where the demo lives in the worktree
    rc, out = sh("git status --porcelain", cwd=wt)
    demos = [l[3:] for l in out.splitlines() if l.startswith("??") and l.endswith("_test.go")]
    meta["demo_path"] = demos[0] if demos else ""
    json.dump(meta, open(os.path.join(d, "meta.json"), "w"), indent=1)
    print("imported", sid, meta.get("summary"))


def baseline_pass_set(cwd):
    passed = set()
    for _ in range(3):
        rc, out = sh("timeout 400 go test -p 1 -json -vet=off -count=1 -timeout 120s ./message/... ./sessions/... ./topics/... ./auth/... ./service/...", cwd=cwd, timeout=500)
        for ln in out.splitlines():
            try:
                e = json.loads(ln)
            except ValueError:
                continue
            if e.get("Test") and e.get("Action") == "pass":
                passed.add(e["Package"] + "::" + e["Test"])
        want = [l.strip() for l in open(os.path.join(ROOT, "lib", "baseline_tests.txt")) if l.strip()]
        if all(t in passed for t in want):
            break
    return passed


def do_verify(sid):
    d = os.path.join(SEEDED, sid)
    meta = json.load(open(os.path.join(d, "meta.json")))
    wt = "/tmp/seedverify-" + sid
    sh("git -C /repo worktree remove --force %s" % wt)
    rc, out = sh("git -C /repo worktree add -q --detach %s HEAD" % wt)
    try:
        demo_rel = meta.get("demo_path") or ""
        if not demo_rel:
            first = open(os.path.join(d, "demo_test.go.txt")).readline()
            m = re.search(r"(\w+)/", first)
            demo_rel = (m.group(1) if m else "service") + "/zz_demo_test.go"
        src = open(os.path.join(d, "demo_test.go.txt")).read()
        # the .txt copy may start with an explanatory comment line before 'package'
        with open(os.path.join(wt, demo_rel), "w") as f:
            f.write(src)
        pkg = "./" + os.path.dirname(demo_rel) + "/"
        cmd = meta.get("demo_cmd") or ("go test -vet=off -count=1 -run Demo " + pkg)
        cmd = re.sub(r"^(GO\w+=\S+\s+)+", "", cmd)
        rc0, out0 = sh("timeout 300 " + cmd, cwd=wt)
        rc, out = apply_patch(wt, os.path.join(d, "patch.diff"))
        if rc != 0:
            print("PATCH DOES NOT APPLY", out)
            meta["verified"] = False
            return
        rcb, outb = sh("go build ./... && go build -tags verif ./...", cwd=wt)
        rc1, out1 = sh("timeout 300 " + cmd, cwd=wt)
        os.unlink(os.path.join(wt, demo_rel))
        want = [l.strip() for l in open(os.path.join(ROOT, "lib", "baseline_tests.txt")) if l.strip()]
        passed = baseline_pass_set(wt)
        missing = [t for t in want if t not in passed]
        meta["verified"] = (rc0 == 0 and rc1 != 0 and rcb == 0 and not missing)
        meta["verify"] = {"demo_without_change": "pass" if rc0 == 0 else "FAIL", "demo_with_change": "fail" if rc1 != 0 else "PASS",
                          "builds": rcb == 0, "baseline_missing": missing, "demo_cmd_used": cmd}
        print(sid, "verified" if meta["verified"] else "NOT VERIFIED", meta["verify"])
        if rc0 != 0:
            print(out0[-1500:])
    finally:
        json.dump(meta, open(os.path.join(d, "meta.json"), "w"), indent=1)
        sh("git -C /repo worktree remove --force %s" % wt)


def do_run(sid, tier="quick", props=None):
    d = os.path.join(SEEDED, sid)
    meta = json.load(open(os.path.join(d, "meta.json")))
    rc, out = sh("git -C /repo status --porcelain")
    if out.strip():
        print("refusing: /repo has uncommitted changes:\n" + out)
        return
    props = props or [meta["property"]]
    rc, out = apply_patch("/repo", os.path.join(d, "patch.diff"))
    if rc != 0:
        print("patch does not apply to /repo:", out)
        return
    results = {}
    try:
        for pid in props:
            rc, out = sh("timeout 3000 ./verif check %s --tier %s" % (pid, tier), cwd=ROOT, timeout=3100)
            viol = [l for l in out.splitlines() if l.startswith("VIOLATION")]
            results[pid] = {"exit": rc, "violation": bool(viol), "tail": out.strip().splitlines()[-6:]}
            print(sid, pid, tier, "exit", rc, "DETECTED" if rc == 1 and viol else "MISSED" if rc == 0 else "INFRA")
            for l in out.strip().splitlines()[-4:]:
                print("   ", l[:220])
    finally:
        sh("git -C /repo checkout -- .")
        # evidence files were rewritten against the changed tree: mark stale
    meta.setdefault("runs", {})[tier] = results
    json.dump(meta, open(os.path.join(d, "meta.json"), "w"), indent=1)


def do_runwt(sid, tier="quick", props=None):
    """Like run, but in a scratch worktree (VERIF_REPO) with evidence redirected: /repo and /verif/evidence stay untouched."""
    d = os.path.join(SEEDED, sid)
    meta = json.load(open(os.path.join(d, "meta.json")))
    props = props or [meta["property"]]
    wt = "/tmp/seedrun-" + sid
    sh("git -C /repo worktree remove --force %s" % wt)
    sh("git -C /repo worktree add -q --detach %s HEAD" % wt)
    results = {}
    try:
        rc, out = apply_patch(wt, os.path.join(d, "patch.diff"))
        if rc != 0:
            print(sid, "INFRA: patch does not apply:", out[:200])
            return
        env = "VERIF_REPO=%s VERIF_EVIDENCE_DIR=/tmp/seedrun-evid VERIF_REPLAYS_DIR=/tmp/seedrun-evid" % wt
        for pid in props:
            rc, out = sh("%s timeout 3000 ./verif check %s --tier %s" % (env, pid, tier), cwd=ROOT, timeout=3100)
            viol = [l for l in out.splitlines() if l.startswith("VIOLATION")]
            results[pid] = {"exit": rc, "violation": bool(viol), "tail": out.strip().splitlines()[-6:], "mode": "worktree"}
            print(sid, pid, tier, "exit", rc, "DETECTED" if rc == 1 and viol else "MISSED" if rc == 0 else "INFRA")
            for l in out.strip().splitlines()[-3:]:
                print("   ", l[:220])
    finally:
        sh("git -C /repo worktree remove --force %s" % wt)
    meta.setdefault("runs", {})[tier] = results
    json.dump(meta, open(os.path.join(d, "meta.json"), "w"), indent=1)


BENIGN = os.path.join(ROOT, "benign")
ALL_PROPS = ["C01", "C02", "C03", "C04", "C05", "C06", "C07", "C08", "C09", "C10", "C11", "C12", "C13", "C14", "C15", "C16", "C17", "C19", "C20"]


def do_import_benign(wt, sid):
    d = os.path.join(BENIGN, sid)
    os.makedirs(d, exist_ok=True)
    shutil.copy(os.path.join(wt, "patch.diff"), d)
    meta = json.load(open(os.path.join(wt, "meta.json")))
    json.dump(meta, open(os.path.join(d, "meta.json"), "w"), indent=1)
    print("imported benign", sid, (meta.get("summary") or "")[:200])


def do_run_benign(sid, tier="quick", props=None):
    """A property-preserving change: every check must stay quiet (exit 0). Scratch worktree, evidence redirected."""
    d = os.path.join(BENIGN, sid)
    meta = json.load(open(os.path.join(d, "meta.json")))
    props = props or ALL_PROPS
    wt = "/tmp/seedrun-" + sid
    sh("git -C /repo worktree remove --force %s" % wt)
    sh("git -C /repo worktree add -q --detach %s HEAD" % wt)
    results = meta.setdefault("runs", {}).setdefault(tier, {})
    try:
        rc, out = apply_patch(wt, os.path.join(d, "patch.diff"))
        if rc != 0:
            print("patch does not apply:", out)
            return
        rc, out = sh("go build ./... && go build -tags verif ./...", cwd=wt)
        if rc != 0:
            print("does not build:", out[-800:])
            return
        env = "VERIF_REPO=%s VERIF_EVIDENCE_DIR=/tmp/seedrun-evid VERIF_REPLAYS_DIR=/tmp/seedrun-evid" % wt
        for pid in props:
            rc, out = sh("%s timeout 3000 ./verif check %s --tier %s" % (env, pid, tier), cwd=ROOT, timeout=3100)
            viol = [l for l in out.splitlines() if l.startswith("VIOLATION")]
            results[pid] = {"exit": rc, "violation": bool(viol), "tail": out.strip().splitlines()[-4:]}
            print(sid, pid, tier, "exit", rc, "quiet" if rc == 0 else "ALARM" if rc == 1 else "INFRA")
            if rc != 0:
                for l in out.strip().splitlines()[-3:]:
                    print("   ", l[:260])
    finally:
        sh("git -C /repo worktree remove --force %s" % wt)
    json.dump(meta, open(os.path.join(d, "meta.json"), "w"), indent=1)


if __name__ == "__main__":
    a = sys.argv
    if a[1] == "import-benign":
        do_import_benign(a[2], a[3])
        sys.exit(0)
    if a[1] == "runbenign":
        do_run_benign(a[2], a[3] if len(a) > 3 else "quick", a[4].split(",") if len(a) > 4 else None)
        sys.exit(0)
    if a[1] == "import":
        do_import(a[2], a[3])
    elif a[1] == "verify":
        do_verify(a[2])
    elif a[1] == "run":
        do_run(a[2], a[3] if len(a) > 3 else "quick", a[4].split(",") if len(a) > 4 else None)
    elif a[1] == "runwt":
        do_runwt(a[2], a[3] if len(a) > 3 else "quick", a[4].split(",") if len(a) > 4 else None)
    elif a[1] == "runall":
        for sid in sorted(os.listdir(SEEDED)):
            do_run(sid, a[2] if len(a) > 2 else "quick")
