"""Shared machinery of the go-mqtt verification framework.

  * run_tlc       run TLC on a module/config in a scratch copy of /verif/spec, return stdout, stats
  * behaviours    extract the JSON values a specification printed with PrintT(ToJson(..))
  * build_harness build the Go harness against $VERIF_REPO (default /repo) with -tags verif
  * run_harness   run harness sub-commands, sharded over processes
  * Verdict       collects mismatches, classifies them against known_findings.txt, writes
                  evidence/<ID>.json and replay files, prints VIOLATION / KNOWN-FINDING lines
Exit codes: 0 property held on everything explored, 1 violation observed on the real code,
2 infrastructure problem (never a verdict).
"""
import gzip
import hashlib
import json
import os
import re
import shutil
import subprocess
import sys
import tempfile
import threading
import time

ROOT = os.path.dirname(os.path.dirname(os.path.abspath(__file__)))
SPEC = os.path.join(ROOT, "spec")
GEN = os.path.join(ROOT, "gen")
BUILD = os.path.join(ROOT, ".build")
EVID = os.environ.get("VERIF_EVIDENCE_DIR", os.path.join(ROOT, "evidence"))   # redirected when a seeded change is examined
REPLAYS = os.environ.get("VERIF_REPLAYS_DIR", os.path.join(ROOT, "replays"))
REPO = os.environ.get("VERIF_REPO", "/repo")
TLA_CP = "/opt/veriftools/tla/tla2tools.jar:/opt/veriftools/tla/CommunityModules-deps.jar"
NCPU = os.cpu_count() or 4


class Infra(Exception):
    """Infrastructure failure: exit 2, never a verdict about the code."""


def seed():
    try:
        return int(os.environ.get("VERIF_SEED", "1"))
    except ValueError:
        return 1


def goenv():
    e = dict(os.environ)
    e.update(GOFLAGS="-mod=mod", GOPROXY="off", GOSUMDB="off", GOTOOLCHAIN="local")
    return e


# --------------------------------------------------------------------------- TLC

STAT_RE = re.compile(r"(\d+) states generated, (\d+) distinct states found, (\d+) states left on queue")
DEPTH_RE = re.compile(r"The depth of the complete state graph search is (\d+)")


class TlcResult:
    def __init__(self):
        self.lines = []
        self.generated = 0
        self.distinct = 0
        self.depth = 0
        self.ok = False
        self.violation = None  # text of an invariant/property/deadlock report
        self.wall = 0.0
        self.cmd = ""
        self.cached = False

    def stats(self):
        return {"generated": self.generated, "distinct": self.distinct, "depth": self.depth,
                "wall_s": round(self.wall, 2), "cached": self.cached}


def _deps(module, seen):
    path = os.path.join(SPEC, module + ".tla")
    if module in seen or not os.path.exists(path):
        return
    seen.add(module)
    txt = open(path).read()
    for m in re.finditer(r"EXTENDS([^\n]*)", txt):
        for name in m.group(1).split(","):
            _deps(name.strip(), seen)
    for m in re.finditer(r"INSTANCE\s+(\w+)", txt):
        _deps(m.group(1), seen)


def spec_hash(module, cfg_text, extra):
    """Hash of the module, the modules it extends or instantiates, the configuration and options."""
    h = hashlib.sha256()
    seen = set()
    _deps(module, seen)
    for name in sorted(seen):
        with open(os.path.join(SPEC, name + ".tla"), "rb") as f:
            h.update(name.encode())
            h.update(f.read())
    h.update(module.encode())
    h.update(cfg_text.encode())
    h.update(repr(extra).encode())
    return h.hexdigest()[:16]


def run_tlc(module, cfg_text, workers=1, timeout=600, simulate=None, depth=None, tlc_seed=None,
            heap="8g", deadlock=False, extra_files=None, env_extra=None, keep_out=None, dfs=False,
            coverage=False, beh_sink=None):
    """Run TLC on spec/<module>.tla with the given configuration text.

    Returns a TlcResult. A TLC-reported invariant/property violation or deadlock is
    returned in .violation (the caller decides what it means); tool failure raises Infra.
    """
    scratch = tempfile.mkdtemp(prefix="verif-tlc-")
    try:
        for fn in os.listdir(SPEC):
            p = os.path.join(SPEC, fn)
            if os.path.isfile(p) and (fn.endswith(".tla")):
                shutil.copy(p, scratch)
        for name, text in (extra_files or {}).items():
            with open(os.path.join(scratch, name), "w") as f:
                f.write(text)
        with open(os.path.join(scratch, module + ".cfg"), "w") as f:
            f.write(cfg_text)
        jopts = ["-XX:+UseParallelGC", "-Xmx" + heap, "-Xss64m"]
        if dfs:
            jopts.append("-Dtlc2.tool.queue.IStateQueue=StateDeque")
        cmd = ["java"] + jopts + ["-cp", TLA_CP, "tlc2.TLC", "-metadir", os.path.join(scratch, "meta"),
                                  "-workers", str(workers), "-config", module + ".cfg", "-noGenerateSpecTE"]
        if not deadlock:
            cmd.append("-deadlock")  # -deadlock = do NOT check for deadlock
        if coverage:
            cmd += ["-coverage", "1"]
        if simulate is not None:
            cmd += ["-simulate", "num=%d" % simulate]
            if depth:
                cmd += ["-depth", str(depth)]
        if tlc_seed is not None:
            cmd += ["-seed", str(tlc_seed)]
        cmd.append(module + ".tla")
        env = dict(os.environ)
        env.update(env_extra or {})
        t0 = time.time()
        # stdout is consumed line by line: values printed by the specification ('"{...' / '"[...') go to the
        # caller's sink (or stay in memory when there is none), everything else is TLC's own report
        proc = subprocess.Popen(cmd, cwd=scratch, env=env, stdout=subprocess.PIPE, stderr=subprocess.STDOUT,
                                text=True, errors="replace", bufsize=1 << 20)
        timed_out = []

        def _kill():
            timed_out.append(True)
            proc.kill()
        timer = threading.Timer(timeout, _kill)
        timer.start()
        r = TlcResult()
        report = []
        kept = r.lines
        try:
            for ln in proc.stdout:
                ln = ln.rstrip("\n")
                if len(ln) > 2 and ln[0] == '"' and ln[1] in "[{":
                    if beh_sink is not None:
                        beh_sink(ln)
                    else:
                        kept.append(ln)
                else:
                    report.append(ln)
                    kept.append(ln)
            proc.wait()
        finally:
            timer.cancel()
        if timed_out:
            subprocess.run(["pkill", "-f", scratch], check=False)
            raise Infra("TLC timed out after %ds on %s" % (timeout, module))

        class _P:
            returncode = proc.returncode
        p = _P()
        r.wall = time.time() - t0
        r.cmd = " ".join(cmd[cmd.index("tlc2.TLC"):])
        if keep_out:
            with open(keep_out, "w") as f:
                f.write("\n".join(kept))
        for ln in report:
            m = STAT_RE.search(ln)
            if m:
                r.generated, r.distinct = int(m.group(1)), int(m.group(2))
            m = DEPTH_RE.search(ln)
            if m:
                r.depth = int(m.group(1))
        txt = "\n".join(report)
        if simulate is not None:
            # simulation ends when num traces were generated
            m = re.search(r"The number of states generated: (\d+)", txt)
            if m:
                r.generated = int(m.group(1))
                r.distinct = r.generated
        bad = None
        if "TLC threw an unexpected exception" in txt or "Parsing or semantic analysis failed" in txt \
                or "Error: Evaluating" in txt or "was unable to fingerprint" in txt:
            raise Infra("TLC error on %s:\n%s" % (module, "\n".join(
                l for l in report)[-3000:]))
        for pat in ("Invariant .* is violated", "Deadlock reached", "Temporal properties were violated",
                    "Action property .* is violated", "is violated", "Assumption .* is false",
                    "Postcondition \\S+ .*is false"):
            m = re.search(pat, txt)
            if m:
                bad = m.group(0)
                break
        if bad:
            r.violation = bad
        elif "Model checking completed. No error has been found" in txt or \
                (simulate is not None and p.returncode == 0):
            r.ok = True
        elif simulate is not None and "Finished in" in txt and "Error" not in txt:
            r.ok = True
        else:
            tail = "\n".join(report[-40:])
            raise Infra("TLC failed on %s (exit %s):\n%s" % (module, p.returncode, tail))
        return r
    finally:
        shutil.rmtree(scratch, ignore_errors=True)


def behaviours(lines):
    """JSON values printed by PrintT(ToJson(v)): TLC prints them as quoted TLA+ strings."""
    out = []
    for ln in lines:
        if len(ln) > 2 and ln[0] == '"' and ln[1] in "[{":
            try:
                out.append(json.loads(json.loads(ln)))
            except ValueError:
                raise Infra("cannot parse behaviour line: %s" % ln[:200])
    return out


def cached_tlc(name, module, cfg_text, **kw):
    """Run TLC for a generation that depends on the specification only; cache lines under gen/."""
    os.makedirs(GEN, exist_ok=True)
    key = spec_hash(module, cfg_text, sorted((k, str(v)) for k, v in kw.items() if k not in ("timeout", "heap")))
    path = os.path.join(GEN, "%s-%s.json" % (name, key))
    if os.path.exists(path):
        with open(path) as f:
            d = json.load(f)
        r = TlcResult()
        r.generated, r.distinct, r.depth, r.wall = d["generated"], d["distinct"], d["depth"], d["wall"]
        r.ok, r.violation, r.cmd, r.cached = d["ok"], d["violation"], d["cmd"], True
        r.lines = d["lines"]
        return r
    r = run_tlc(module, cfg_text, **kw)
    keep = [ln for ln in r.lines if ln[:1] == '"']
    for fn in os.listdir(GEN):
        if fn.startswith(name + "-") and fn != os.path.basename(path):
            os.unlink(os.path.join(GEN, fn))
    with open(path, "w") as f:
        json.dump({"generated": r.generated, "distinct": r.distinct, "depth": r.depth, "wall": r.wall,
                   "ok": r.ok, "violation": r.violation, "cmd": r.cmd, "lines": keep}, f)
    r.lines = keep
    return r


class BehFile:
    """Behaviours printed by a specification, one JSON value per line of a gzip file under gen/ (never all in memory)."""

    def __init__(self, path, count):
        self.path = path
        self.count = count

    def __len__(self):
        return self.count

    def __iter__(self):
        with gzip.open(self.path, "rt") as f:
            for ln in f:
                if ln.strip():
                    yield json.loads(ln)


def cached_tlc_file(name, module, cfg_text, leaves_key=None, **kw):
    """Like cached_tlc, for generations whose output is large: the values the specification prints are streamed
    into gen/<name>-<key>.ndjson.gz. With leaves_key, only the maximal ones (not a proper prefix of another) are kept."""
    os.makedirs(GEN, exist_ok=True)
    key = spec_hash(module, cfg_text, sorted((k, str(v)) for k, v in kw.items() if k not in ("timeout", "heap")) + ["file", bool(leaves_key)])
    path = os.path.join(GEN, "%s-%s.ndjson.gz" % (name, key))
    meta = path + ".meta"
    if os.path.exists(path) and os.path.exists(meta):
        d = json.load(open(meta))
        r = TlcResult()
        r.generated, r.distinct, r.depth, r.wall = d["generated"], d["distinct"], d["depth"], d["wall"]
        r.ok, r.violation, r.cmd, r.cached = d["ok"], d["violation"], d["cmd"], True
        return r, BehFile(path, d["count"])
    tmp = path + ".tmp%d" % os.getpid()
    n = [0]
    with gzip.open(tmp, "wt", compresslevel=1) as out:
        def sink(ln):
            try:
                v = json.loads(ln)   # TLC prints the JSON text as a quoted TLA+ string
                json.loads(v)
            except ValueError:
                raise Infra("cannot parse behaviour line: %s" % ln[:200])
            out.write(v)
            out.write("\n")
            n[0] += 1
        try:
            r = run_tlc(module, cfg_text, beh_sink=sink, **kw)
        except BaseException:
            out.close()
            os.unlink(tmp)
            raise
    count = n[0]
    witnesses = count
    if leaves_key is not None and not r.violation:
        seen = set()
        for x in BehFile(tmp, count):
            steps = leaves_key(x)
            for i in range(len(steps)):
                seen.add(_h(steps[:i]))
        tmp2 = tmp + ".lv"
        count = 0
        with gzip.open(tmp2, "wt", compresslevel=1) as out:
            with gzip.open(tmp, "rt") as f:
                for ln in f:
                    if ln.strip() and _h(leaves_key(json.loads(ln))) not in seen:
                        out.write(ln)
                        count += 1
        os.replace(tmp2, tmp)
    for fn in os.listdir(GEN):
        if fn.startswith(name + "-") and not fn.startswith(os.path.basename(path)):
            os.unlink(os.path.join(GEN, fn))
    os.replace(tmp, path)
    json.dump({"generated": r.generated, "distinct": r.distinct, "depth": r.depth, "wall": r.wall, "ok": r.ok,
               "violation": r.violation, "cmd": r.cmd, "count": count, "witnesses": witnesses}, open(meta, "w"))
    return r, BehFile(path, count)


def leaves(paths, key=lambda p: p):
    """Of a prefix-closed family of step lists keep those that are not a proper prefix of another."""
    seen = set()
    for p in paths:
        steps = key(p)
        for i in range(len(steps)):
            seen.add(_h(steps[:i]))
    return [p for p in paths if _h(key(p)) not in seen]


def _h(x):
    return hashlib.md5(json.dumps(x, sort_keys=True).encode()).digest()


# --------------------------------------------------------------------------- Go harness

_built = {}


def build_harness():
    """Build harness against REPO's current working tree with the verif tag. Returns binary path."""
    if REPO in _built:
        return _built[REPO]
    tag = hashlib.md5(REPO.encode()).hexdigest()[:8]
    d = os.path.join(BUILD, "h-" + tag)
    os.makedirs(d, exist_ok=True)
    src = os.path.join(ROOT, "harness")
    for fn in os.listdir(d):
        if fn.endswith(".go"):
            os.unlink(os.path.join(d, fn))
    for fn in os.listdir(src):
        if fn.endswith(".go"):
            shutil.copy(os.path.join(src, fn), d)
    with open(os.path.join(d, "go.mod"), "w") as f:
        f.write("module verifharness\n\ngo 1.21\n\nrequire github.com/mdzio/go-mqtt v0.0.0\n\n"
                "replace github.com/mdzio/go-mqtt => %s\n" % REPO)
    shutil.copy(os.path.join(REPO, "go.sum"), os.path.join(d, "go.sum"))
    out = os.path.join(d, "vharness")
    p = subprocess.run(["go", "build", "-tags", "verif", "-o", out, "."], cwd=d, env=goenv(),
                       stdout=subprocess.PIPE, stderr=subprocess.STDOUT, text=True)
    if p.returncode != 0:
        raise Infra("harness build failed against %s:\n%s" % (REPO, p.stdout[-4000:]))
    _built[REPO] = out
    return out


def run_harness(args, stdin_obj=None, timeout=600, env_extra=None):
    """Run one harness process; it prints one JSON result object on stdout."""
    exe = build_harness()
    env = goenv()
    env.update(env_extra or {})
    data = None
    if stdin_obj is not None:
        data = "\n".join(json.dumps(x) for x in stdin_obj) + "\n"
    try:
        p = subprocess.run([exe] + args, input=data, stdout=subprocess.PIPE, stderr=subprocess.PIPE,
                           timeout=timeout, text=True, env=env)
    except subprocess.TimeoutExpired:
        raise Infra("harness %s timed out after %ds" % (args, timeout))
    return p


def run_sharded(args, items, shards=None, timeout=900, env_extra=None, died_is_result=False):
    """Split items over harness processes reading ndjson on stdin; merge their JSON results."""
    exe = build_harness()
    shards = max(1, min(shards or NCPU, len(items)))
    env = goenv()
    env.update(env_extra or {})
    procs = []
    tmpd = tempfile.mkdtemp(prefix="verif-sh-")
    try:
        for i in range(shards):
            if isinstance(items, BehFile):
                # every child reads the same file and takes the lines of its residue class
                src = ["-in", items.path, "-shard", str(i), "-of", str(shards)]
            else:
                part = items[i::shards]
                fn = os.path.join(tmpd, "in%d.ndjson" % i)
                with open(fn, "w") as f:
                    for x in part:
                        f.write(json.dumps(x))
                        f.write("\n")
                src = ["-in", fn]
            fo = open(os.path.join(tmpd, "out%d.json" % i), "w")
            fe = open(os.path.join(tmpd, "err%d.txt" % i), "w")
            procs.append((subprocess.Popen([exe] + [a.replace("{shard}", str(i)) for a in args] + src, stdout=fo, stderr=fe, env=env), fo, fe, i))
        results = []
        deadline = time.time() + timeout
        for p, fo, fe, i in procs:
            try:
                p.wait(timeout=max(1, deadline - time.time()))
            except subprocess.TimeoutExpired:
                for q, _, _, _ in procs:
                    q.kill()
                raise Infra("harness shard timed out (%s)" % " ".join(args))
            fo.close()
            fe.close()
            with open(os.path.join(tmpd, "out%d.json" % i)) as f:
                txt = f.read()
            with open(os.path.join(tmpd, "err%d.txt" % i)) as f:
                err = f.read()
            res = None
            for ln in reversed(txt.strip().splitlines()):
                if ln.startswith("{"):
                    try:
                        res = json.loads(ln)
                        break
                    except ValueError:
                        pass
            if res is None or p.returncode != 0:
                if died_is_result:
                    results.append({"died": True, "exit": p.returncode, "stderr": err[-3000:], "stdout": txt[-2000:], "shard": i})
                    continue
                raise Infra("harness shard %d failed (exit %s): %s\n%s" % (i, p.returncode, err[-3000:], txt[-1000:]))
            results.append(res)
        return results
    finally:
        shutil.rmtree(tmpd, ignore_errors=True)


def merge(results):
    """Merge harness result objects: ints add, lists concatenate, dicts of ints add."""
    out = {}
    for r in results:
        for k, v in r.items():
            if isinstance(v, bool):
                out[k] = out.get(k, False) or v
            elif isinstance(v, (int, float)):
                out[k] = out.get(k, 0) + v
            elif isinstance(v, list):
                out.setdefault(k, []).extend(v)
            elif isinstance(v, dict):
                d = out.setdefault(k, {})
                for kk, vv in v.items():
                    if isinstance(vv, (int, float)) and not isinstance(vv, bool):
                        d[kk] = d.get(kk, 0) + vv
                    else:
                        d[kk] = vv
            else:
                out[k] = v
    return out


# --------------------------------------------------------------------------- verdicts

def load_known():
    """known_findings.txt: 'finding: property=C06 key=<key> text' and 'fixed: ...' lines."""
    known = {}
    path = os.path.join(ROOT, "known_findings.txt")
    if os.path.exists(path):
        for ln in open(path):
            ln = ln.strip()
            if ln.startswith("finding:"):
                m = re.match(r"finding:\s+property=(\S+)\s+key=(\S+)\s+(.*)", ln)
                if m:
                    known.setdefault(m.group(1), {})[m.group(2)] = m.group(3)
    return known


class Verdict:
    def __init__(self, pid, tier, level="model_checking"):
        self.pid = pid
        self.tier = tier
        self.level = level
        self.t0 = time.time()
        self.cov = {"states": 0, "transitions": 0, "traces_validated_against_impl": 0, "samples": [],
                    "evaluations": 0, "distinct_nontrivial": 0, "rule": "", "tlc_runs": [], "exhaustive": False,
                    "known_findings": [], "parts": {}}
        self.assumptions = []
        self.violations = []   # dicts with at least 'what'
        self.known_hits = {}
        self.known = load_known().get(pid, {})
        self.notes = []

    def tlc(self, name, r):
        """Account a TLC run. A violation reported by TLC on a claimed configuration means the
        specification is wrong, not the code: infrastructure error."""
        self.cov["states"] += r.distinct
        self.cov["transitions"] += r.generated
        self.cov["tlc_runs"].append(dict(name=name, cmd=r.cmd, **r.stats()))
        if r.violation:
            raise Infra("TLC reports '%s' on configuration %s: the specification does not satisfy the property it "
                        "claims; fix the specification" % (r.violation, name))

    def add_samples(self, xs, n=3):
        for x in xs[:n]:
            if len(self.cov["samples"]) < 9:
                self.cov["samples"].append(x)

    def mismatch(self, m):
        """m: dict from the harness: {'what':..., 'known': key or '', 'replay': {...}}"""
        key = m.get("known") or ""
        if key and key in self.known:
            self.known_hits[key] = self.known_hits.get(key, 0) + 1
            return
        self.violations.append(m)

    def mismatches(self, ms, counts=None):
        """ms: kept examples; counts: the harness's complete 'known:<key>' counters"""
        for m in ms or []:
            self.mismatch(m)
        for k, n in (counts or {}).items():
            if k.startswith("known:"):
                key = k[6:]
                kept = sum(1 for m in ms or [] if (m.get("known") or "") == key)
                if key and key in self.known:
                    self.known_hits[key] = self.known_hits.get(key, 0) + n - kept
                elif n > kept:
                    self.notes.append("%d further unclassified mismatches not kept" % (n - kept))

    def finish(self):
        os.makedirs(EVID, exist_ok=True)
        os.makedirs(REPLAYS, exist_ok=True)
        for key, n in sorted(self.known_hits.items()):
            print("KNOWN-FINDING: property=%s %s (key=%s, %d observations this run)" % (self.pid, self.known[key], key, n))
            self.cov["known_findings"].append({"key": key, "observations": n, "text": self.known[key]})
        replay_paths = []
        seen = set()
        for v in self.violations:
            sig = v.get("what", "")[:160]
            if sig in seen and len(replay_paths) >= 1:
                continue
            seen.add(sig)
            if len(replay_paths) >= 5:
                break
            h = hashlib.md5(json.dumps(v, sort_keys=True).encode()).hexdigest()[:10]
            path = os.path.join(REPLAYS, "%s-%s.json" % (self.pid, h))
            with open(path, "w") as f:
                json.dump({"property": self.pid, "tier": self.tier, "seed": seed(), "violation": v}, f, indent=1)
            replay_paths.append(path)
        if not self.cov["samples"]:
            self.cov["samples"] = ["(no sample recorded)"]
        ev = {"property_id": self.pid, "tier": self.tier, "seed": seed(), "level": self.level,
              "coverage": self.cov, "assumptions": self.assumptions, "wall_s": round(time.time() - self.t0, 2),
              "violations": len(self.violations)}
        if self.notes:
            ev["coverage"]["notes"] = self.notes
        with open(os.path.join(EVID, self.pid + ".json"), "w") as f:
            json.dump(ev, f, indent=1)
        if self.violations:
            kinds = {}
            for v in self.violations:
                kinds[v.get("what", "")[:200]] = kinds.get(v.get("what", "")[:200], 0) + 1
            for k, n in sorted(kinds.items(), key=lambda kv: -kv[1])[:12]:
                print("  %5d x %s" % (n, k))
            for pth in replay_paths[:1]:
                print("VIOLATION property=%s replay=%s" % (self.pid, pth))
            return 1
        print("OK property=%s tier=%s states=%d transitions=%d impl_traces=%d wall=%.1fs" % (
            self.pid, self.tier, self.cov["states"], self.cov["transitions"],
            self.cov["traces_validated_against_impl"], time.time() - self.t0))
        return 0
