#!/usr/bin/env python3
"""Regenerates /verif/MANIFEST.json from the table below (python3 lib/manifest.py)."""
import json
import os

ROOT = os.path.dirname(os.path.dirname(os.path.abspath(__file__)))

HOOK_COMMITS = ["4b32732", "5fd760e", "49e9f71", "0e5bb3d"]  # hook commits in /repo (build tag verif)

CLAIMED = {
    "C06": dict(
        text="TLC checks the algebraic invariants of the Topics specification (one entry per subscriber/filter, match = union "
             "over entries, failed subscribe unchanged, retained and subscriber look-up use one relation) on its complete state "
             "graph for small vocabularies; the relation of MQTT 3.1.1 section 4.7 itself is the specification (TopicRel). The code is bound "
             "to it by replay: all filter/name pairs of <= 4 levels over {a,b,'',+,#} (+ two mixed levels) in both look-up directions, "
             "every path of bounded depth + transition cover + random walks through the TLC-generated state graph, and TLC "
             "-simulate histories over a larger vocabulary, with every look-up of the vocabulary compared after every step. Concurrent callers: recorded call/return histories of 6 goroutines on one store are checked for linearizability against the Topics semantics by TLC (TopicsLinTrace, unlogged linearization points).",
        note="Trusted: TLC, the JSON bridge, the harness adapter (harness/topics.go). Bounded vocabularies and depths; "
             "subscriber identities limited to pointer/string/int; '$' topics excluded by the property. Empty-level handling "
             "is a recorded known finding (known_findings.txt).",
        technique="TLA+ specification (Topics, TopicRel) model-checked with TLC; TLC-generated state graph / behaviours replayed into topics.MemTopics",
        design="6 C06"),
    "C13": dict(
        text="TLC checks FIFO release, id-distinctness and the frame conditions of Ack/Wait on the complete state graph of the "
             "AckQueue specification (3 configurations); the real sessions.Ackqueue is bound to it by replaying every path of "
             "bounded depth, a transition cover and random walks of that graph (results of Acked compared entry by entry incl. "
             "request bytes, ack bytes, callback identity, with caller buffers overwritten), and by validating recorded traces of "
             "long random drivers (hundreds in flight, ring growth while wrapped, measured by the specification's shadow "
             "variables) against AckQueueTrace with TLC.",
        note="Trusted: TLC, harness adapter (harness/ackq.go), the library encoder for expected bytes (C03's subject). Small id "
             "sets in the exhaustive part; one caller at a time.",
        technique="TLA+ specification (AckQueue) model-checked with TLC; state-graph replay + TLC trace validation (AckQueueTrace)",
        design="6 C13"),
}

CLAIMED["C14"] = dict(
    text="TLC explores all interleavings of the Ring specification (service/buffer.go at lock / condition-variable / cursor "
         "granularity, every operation kind, Size 4 units) and checks Fifo, NoOverwrite, Bounded, ReservedFree. The real buffer "
         "is bound to it by forcing TLC-generated transition-cover schedules on it through the verif yield points (gated "
         "replay): consumed bytes are compared with a position-dependent stream and the cursors with the specification after "
         "every step. Free-running producer/consumer pairs (byte granularity, 16 KiB and 256 KiB rings, all operation kinds) are "
         "recorded and validated by TLC against RingStreamTrace. The schedule cover is over pairs of consecutive steps; RingEdge states the two guards at byte granularity (exactly enough room/data vs one byte short) and every case is executed on a real 16 KiB buffer.",
    note="Trusted: TLC, the yield hooks (add-only), the replayer (harness/ring.go). Model bounds: Size 4, Block 2, chunks <= 2 units, "
         "Total <= 7 units; one producer and one consumer. The hand-over inside sync.Cond.Wait cannot be gated (Eager regime for replay; "
         "TLC checks the unrestricted model).",
    technique="TLA+ specification (Ring) model-checked with TLC; TLC-generated schedules replayed through scheduler gates; TLC trace validation (RingStreamTrace)",
    design="6 C14")
CLAIMED["C15"] = dict(
    text="TLC checks deadlock freedom of the Ring specification with and without closers, that both mutexes are free whenever nobody "
         "is inside the buffer, and termination / Close ~> returned under weak fairness; with each named deviation of the pinned "
         "code switched on TLC finds the deadlock (vacuity guard). Every transition of the replayable regime that involves a lock, "
         "wait, wake, broadcast or end-of-stream return is forced on the real buffer: the yield point reached next, parking "
         "(observed through a TryLock probe), call results, cursors and both mutex probes are compared after every step; a step the "
         "specification enables must complete. Additional configuration with requests of 3 of the ring's 4 units (a producer may wait for more than a read block); RingEdge byte-granular guard cases (a call that has exactly what it needs must return, one that is a byte short must park and be released by exactly that byte).",
    note="Trusted: TLC, yield hooks, replayer. A blocked step counts only after 3-fold reproduction with a 4 s deadline (normal "
         "completion is microseconds). Same model bounds as C14.",
    technique="TLA+ specification (Ring) model-checked with TLC incl. liveness; TLC-generated schedules replayed through scheduler gates",
    design="6 C15")

CLAIMED["C03"] = dict(
    text="The Codec specification is a reference wire codec transcribed from MQTT 3.1.1 into TLA+ (Wire, Parse; TLC checks that Parse "
         "inverts Wire and the frame arithmetic on every explicit case). TLC enumerates the product of boundary classes (5.4 k cases over "
         "all 14 packet types); each case is built through the public setters and compared with the reference: Len, Encode bytes, "
         "Decode length and fields, re-encode, decode with trailing bytes, undersized buffer. PacketId specifies the automatic "
         "identifier (never 0); 131,073 consecutive automatically numbered encodes are checked in one process. Also: pairs (A, B) of small cases - A's wire form is decoded, B's fields are set through the setters (identifier also left to the library), Len/Encode must give B's wire form (Codec!Mods); Encode into a destination that held other bytes; reference packets with a padded remaining length re-encode to their bytes if accepted (Codec!Pads).",
    note="This is the 'self-contained function with rich case analysis' use of the technique: exhaustive over classes of field values, "
         "not over all values; a differential check against a specification-level codec, not a proof. Trusted: TLC, the seed expansion "
         "in harness/codec.go.",
    technique="TLA+ reference codec (Codec, PacketId) enumerated by TLC; one implementation test per case (model-based test generation)",
    design="6 C03")
CLAIMED["C04"] = dict(
    text="Codec!Parse is a total reference parser; TLC evaluates it on all 142 k byte strings of length <= 4 over a 19-byte structure "
         "alphabet. Every string is fed to all 14 decoders in a slice with cap = len inside a canary array under recover: no panic, n <= len, "
         "fields inside the decoded packet, and every string the reference parser accepts is accepted with the same length and fields. "
         "Truncations at/next to every segment boundary and edits of every structure byte of every reference case (segment structure "
         "printed by the specification), and seeded random strings, are checked for totality. Also: every reference case (incl. requests repeating a filter, long first filters next to one-character ones, unset identifiers) must be accepted with its field values; padded remaining lengths may be refused but never crash or mis-size.",
    note="Totality over all byte strings is approximated by structured + random inputs; Go's own bounds checks turn out-of-range reads into "
         "panics (what is observed), silent over-reads are only possible within cap, hence cap = len. Leniencies are counted, not reported.",
    technique="TLA+ total reference parser (Codec!Parse) enumerated by TLC; spec-derived mutations; decoders run under recover against it",
    design="6 C04")

CLAIMED["C01"] = dict(
    text='TLC checks on the Broker specification that the subscription tree equals the sessions of the live connections, that only valid filters are stored and the step frame properties; the routing relation is MqttTopic!Matches (C06). Every behaviour of configuration routing (transition cover to depth 4/5, all paths to depth 2/3) is replayed into a real broker over net.Pipe: after every step the PUBLISH packets on every connection and every in-process callback must be exactly the bag the specification computes (topic, payload bytes, QoS = min, retain 0).',
    note="Trusted: TLC, the raw-wire replayer (harness/broker.go), PINGREQ/PINGRESP barriers (rely on per-connection sequential processing), "
         "the verif entry point VerifServe and the admit / stop.done events. Sequential regime only (one stimulus at a time); bounded vocabularies "
         "and depths; a mismatch in this narrow configuration is attributed to this property (deliveries are its observable here).",
    technique="TLA+ specification (Broker, sequential regime) model-checked with TLC; TLC-generated behaviours (transition cover / all paths) replayed into a real broker over net.Pipe",
    design="6 C01")
CLAIMED["C02"] = dict(
    text='The receiver engine of the Broker specification (PUBACK then accept; store-unless-known + PUBREC; PUBREL marks, the released prefix is accepted in queue order, PUBCOMP also for unknown ids) is replayed for all operation sequences of depth 6/7 over two ids with DUP repeats of different content and ring-wrapping filler traffic: acks on the publisher and the hand-over to a witness subscriber are compared packet by packet.',
    note="Trusted: TLC, the raw-wire replayer (harness/broker.go), PINGREQ/PINGRESP barriers (rely on per-connection sequential processing), "
         "the verif entry point VerifServe and the admit / stop.done events. Sequential regime only (one stimulus at a time); bounded vocabularies "
         "and depths; a mismatch in this narrow configuration is attributed to this property (deliveries are its observable here).",
    technique="TLA+ specification (Broker, sequential regime) model-checked with TLC; TLC-generated behaviours (transition cover / all paths) replayed into a real broker over net.Pipe",
    design="6 C02")
CLAIMED["C07"] = dict(
    text='ProcSubscribe/ProcUnsubscribe of the Broker specification: exactly one SUBACK per request with one code per filter in request order (granted = min(requested, max) or 0x80), UNSUBACK, effect at the ack (probe publishes). StepProps: a subscribe step always answers. Replayed: requests with 1..9 filters incl. invalid filters and QoS 3, transition cover to depth 5/6.',
    note="Trusted: TLC, the raw-wire replayer (harness/broker.go), PINGREQ/PINGRESP barriers (rely on per-connection sequential processing), "
         "the verif entry point VerifServe and the admit / stop.done events. Sequential regime only (one stimulus at a time); bounded vocabularies "
         "and depths; a mismatch in this narrow configuration is attributed to this property (deliveries are its observable here).",
    technique="TLA+ specification (Broker, sequential regime) model-checked with TLC; TLC-generated behaviours (transition cover / all paths) replayed into a real broker over net.Pipe",
    design="6 C07")
CLAIMED["C08"] = dict(
    text='Retained store of the Broker specification (RetUpd: last non-empty retained publish per topic, empty payload clears exactly that topic; RetainedFor at subscribe time with retain 1 and QoS min(stored, granted); live forwards retain 0). Replayed: transition cover to depth 4/5 over parent/child/sibling topics, shorter/longer replacements, QoS 0..2, wildcard filters, big unrelated traffic.',
    note="Trusted: TLC, the raw-wire replayer (harness/broker.go), PINGREQ/PINGRESP barriers (rely on per-connection sequential processing), "
         "the verif entry point VerifServe and the admit / stop.done events. Sequential regime only (one stimulus at a time); bounded vocabularies "
         "and depths; a mismatch in this narrow configuration is attributed to this property (deliveries are its observable here).",
    technique="TLA+ specification (Broker, sequential regime) model-checked with TLC; TLC-generated behaviours (transition cover / all paths) replayed into a real broker over net.Pipe",
    design="6 C08")
CLAIMED["C09"] = dict(
    text="End of the Broker specification: the will of THIS connection is accepted exactly when the end is not a DISCONNECT (cut, malformed packet), for fresh and resumed sessions. Replayed: all connect/end sequences of depth 6/7 (4 will variants x CleanSession x 3 kinds of end) plus a transition cover, with a witness subscribed to '#'. All paths are needed: the defect found here lived in implementation state the specification does not have.",
    note="Trusted: TLC, the raw-wire replayer (harness/broker.go), PINGREQ/PINGRESP barriers (rely on per-connection sequential processing), "
         "the verif entry point VerifServe and the admit / stop.done events. Sequential regime only (one stimulus at a time); bounded vocabularies "
         "and depths; a mismatch in this narrow configuration is attributed to this property (deliveries are its observable here).",
    technique="TLA+ specification (Broker, sequential regime) model-checked with TLC; TLC-generated behaviours (transition cover / all paths) replayed into a real broker over net.Pipe",
    design="6 C09")
CLAIMED["C10"] = dict(
    text='Connect/End of the Broker specification on the session store: SessionPresent iff CleanSession 0 and a session was kept; stored filters active again before the first request; clean sessions leave nothing (TLC: SubsAreSessions, OneConnPerId). Replayed: transition cover to depth 5/6 and all paths to depth 4 over two client ids and two slots with probe publishes.',
    note="Trusted: TLC, the raw-wire replayer (harness/broker.go), PINGREQ/PINGRESP barriers (rely on per-connection sequential processing), "
         "the verif entry point VerifServe and the admit / stop.done events. Sequential regime only (one stimulus at a time); bounded vocabularies "
         "and depths; a mismatch in this narrow configuration is attributed to this property (deliveries are its observable here).",
    technique="TLA+ specification (Broker, sequential regime) model-checked with TLC; TLC-generated behaviours (transition cover / all paths) replayed into a real broker over net.Pipe",
    design="6 C10")
CLAIMED["C11"] = dict(
    text="Refuse of the Broker specification: a first packet that is not an acceptable CONNECT gets the CONNACK code of its class (1, 2, 4) or none, the connection is closed and nothing else changes (StepProps: abs' = abs). Replayed: 14 refusal kinds with follow-up packets on the refused connection, accepting and rejecting authenticators, witness and retained-store probes.",
    note="Trusted: TLC, the raw-wire replayer (harness/broker.go), PINGREQ/PINGRESP barriers (rely on per-connection sequential processing), "
         "the verif entry point VerifServe and the admit / stop.done events. Sequential regime only (one stimulus at a time); bounded vocabularies "
         "and depths; a mismatch in this narrow configuration is attributed to this property (deliveries are its observable here).",
    technique="TLA+ specification (Broker, sequential regime) model-checked with TLC; TLC-generated behaviours (transition cover / all paths) replayed into a real broker over net.Pipe",
    design="6 C11")

CLAIMED["C19"] = dict(
    text="The KeepAlive specification (time on a grid of K/5: an expiry needs 1.2 K of silence, time cannot pass 1.6 K of silence without it, an expiry "
         "publishes the will) is checked by TLC (ActiveNeverDropped, SilentDropped, WillIffExpired); the client schedules it enumerates are run in real "
         "time against a real broker (KeepAlive 1 s, thorough also 2 s) in parallel lanes: active clients are never closed and every PINGREQ is answered, "
         "silent ones are closed (not before K) and their will reaches a witness.",
    note="Real time with wide margins (active gaps <= 0.8 K against a 1.2 K deadline, silence judged at 2.6 K). Quick: fixed patterns + seeded sample. "
         "Trusted: TLC, harness/keepalive.go, wall clock.",
    technique="TLA+ specification (KeepAlive) model-checked with TLC; TLC-enumerated timed client schedules replayed in real time against a real broker",
    design="6 C19")

CLAIMED["C05"] = dict(
    category="fault_enumeration",
    text="Fault sequences enumerated by TLC from the Faults specification (12 kinds of hostile input before and after CONNECT - garbage, truncated, oversized "
         "remaining length, cut at byte boundaries, second CONNECT, zero-length topic - at every position of every bounded sequence of bursts, stalled readers and "
         "ends of other connections) are executed on a real broker: the process stays alive (the broker runs in child processes; a dead child is the observation), "
         "and a witness publisher/subscriber pair receives exactly its own traffic after every step. The one adverse interleaving of a delivery with the teardown "
         "of its target is forced through the yield point wm.checked (gated schedule). The 14 refused-first-packet kinds of the Broker specification run in child processes too.",
    note="Trusted: TLC, harness/faults.go, the verif hooks. The property does not require the offender to be closed, so that is not demanded. Apart from the gated "
         "schedule, timing of teardown versus foreign deliveries is whatever the scheduler produces.",
    technique="TLA+ fault-sequence specification (Faults, Broker!Refuse) enumerated by TLC; sequences executed against a real broker in child processes; one TLC-style gated schedule",
    design="6 C05")
CLAIMED["C16"] = dict(
    text="TLC checks on the Teardown specification (small-step, concurrent: goroutine life cycles, bounded rings, fan-out that blocks on a full open ring and fails on a "
         "closed one, will fan-out inside teardown, Server.Close) the leads-to properties TornDown and CloseReturns under fairness and the property's proviso. Every fault "
         "sequence of bounded length from Faults (bursts of 6 KB publishes into 16 KiB rings, peers that stop reading, DISCONNECT / cut / malformed / oversized packet, "
         "Server.Close, both orders of ending, cross-subscribed pairs) is executed on a real broker: teardown-finished events where the proviso holds, at the end everything "
         "torn down, Server.Close returned, no library goroutine, no subscription, no clean session left.",
    note="'Bounded time' = 6 s deadline, reproduced on a second run before it counts. Intermediate expectations only under a sufficient condition for the proviso "
         "(no open connection has stopped reading). The Teardown model abstracts packets to PUB/DISC and rings to capacity 1.",
    technique="TLA+ specification (Teardown) model-checked with TLC incl. liveness; TLC-enumerated fault sequences (Faults) executed against a real broker",
    design="6 C16")

CLAIMED["C17"] = dict(
    text="Recorded executions of a real broker under concurrent load (2-4 raw publishers + Server.Publish, shared subscribers, 16 KiB rings, packet sizes that "
         "wrap the ring mid-packet, QoS 0/1/2, retained rewriting, subscription churn) are validated by TLC against the OutStreamTrace specification: the enq hook "
         "(under the connection's write mutex, before the ring commit) appends a whole packet to the connection's stream, every packet a client parses (strict "
         "reference parser) must be exactly the head of that stream, and the messages of one publisher reach one subscriber with consecutive sequence numbers.",
    note="Interleavings are whatever 16 cores produce; each observed one is checked completely (every event is an enabling condition of the trace specification), "
         "the set is not controlled. Trusted: TLC, the enq/proc hooks, harness/fanin.go.",
    technique="TLA+ trace specification (OutStreamTrace) - recorded traces of the real broker validated by TLC",
    design="6 C17")

CLAIMED["C12"] = dict(
    text="The Client specification (sender side: FIFO ack queues per kind, PUBREL after PUBREC, completion when the head is terminal; invariants HeadsPending, "
         "CompleteOnce, NotBeforeAck checked by TLC) is replayed against the library Client over loopback TCP with a scripted peer: up to 3 outstanding requests "
         "acknowledged in every order incl. duplicates and unknown identifiers; wire packets, identifiers (non-zero, distinct in flight) and the order of completion "
         "callbacks are compared after every step. The interleaving 'ack processed between write and register' is forced through the *.between yield points "
         "(gated schedules generated from the specification with the named deviation); forwarded identifiers are observed with two publishers and a subscriber "
         "that withholds its acks. Both deviations are genuine defects recorded as known findings.",
    note="Two known findings (register-after-write, forwarded-id) are reported as KNOWN-FINDING, anything else as VIOLATION. Trusted: TLC, harness/client.go, the proc hook "
         "as barrier, the yield hooks.",
    technique="TLA+ specification (Client) model-checked with TLC; TLC-generated behaviours and gated schedules replayed into the library client against a scripted peer",
    design="6 C12")
CLAIMED["C20"] = dict(
    text="Client.Connect is run against every CONNACK answer (code 0..5, session present, invalid code, wrong packet, truncated, closed): nil exactly for code 0, else the "
         "refusal code, no library goroutine left. The dispatch part of the Client specification (local tree filled when the SUBACK is released, emptied at UNSUBACK, each "
         "request's callback invoked exactly once per delivered message whose topic matches one of its filters, QoS 2 duplicates suppressed; DispatchSound checked by TLC) "
         "is replayed: overlapping filters, f/# against f, rejected filters, unsubscribe, inbound QoS 0..2 with DUP repeats (transition cover depth 5/6, all paths 3/4).",
    note="SUBACKs carry as many return codes as the request has filters. Trusted: TLC, harness/client.go, the proc hook as barrier.",
    technique="TLA+ specification (Client) model-checked with TLC; TLC-generated behaviours replayed into the library client against a scripted peer",
    design="6 C20")

# additions of rounds 7 and 8 (DESIGN.md section 0.6), appended to the level texts
ADDED = {
    "C01": " API publishers overwrite their message object after Server.Publish returns.",
    "C02": " QosStraySpec: two exchanges released in any order with stray PUBREC/PUBCOMP/PUBACK/SUBACK/UNSUBACK packets carrying the identifier of an open exchange; one payload per identifier in Q2ManySpec.",
    "C03": " Codec mode edits: AddTopic/RemoveTopic at any position of the filter list of a decoded or API-built SUBSCRIBE/UNSUBSCRIBE (4,912 edit sequences), Len/Encode and the accessors against the specification's list.",
    "C04": " For every input that is exactly one frame, verdict, byte count and fields must not depend on the bytes that follow it in the slice; n never exceeds the frame the header announces; truncations with a re-computed header.",
    "C05": " Attacker kind pre-remlen-five-bytes (harness processes run under a 16 GB address-space limit: an input that makes the library ask for more ends the child, which is the observation 'the broker process died'); HalfSpec: a subscriber whose direction broker->client is dead (Broker!BreakOut) among live ones, all paths.",
    "C07": " SubsBigSpec (requests of 130 entries: the SUBACK's length field has two bytes); requests with a filter rejected below a level it shares with accepted ones in SubsLastSpec.",
    "C08": " RetDupLastSpec: retained messages stored from QoS 1 deliveries with DUP and equal identifiers, all paths + probe subscription.",
    "C09": " Replay mode 'CONNECT and the packet the connection sends next in one write'.",
    "C10": " Replay mode 'CONNECT and the next packet in one write'.",
    "C11": " Refusal kinds iddel/idhigh/idctl1f (identifier bytes next to 0x20..0x7e) and remlen5; anonymous CONNECTs whose stored form crosses a length-field boundary; replay mode 'CONNECT and the next packet in one write'.",
    "C14": " Recorded runs of a real broker (enq hook of writeMessage against the stream the peer reads) validated against OutStreamTrace.",
    "C15": " RingEdge!WakeCases: every committing call (Write, WriteCommit, ReadCommit, Read) against every kind of waiter held between its test of the cursor and its Wait.",
    "C16": " Ending 'edge': a packet one fixed header over what the broker takes, cut two bytes short.",
    "C17": " Q2ManySpec replayed in an order-only mode: a connection never receives a message published before the one it received last (more than 16 exchanges open, wrapped queue).",
    "C19": " Kind backlog (30,000 PINGREQs on offer for 1.4 K while the client reads nothing); deaf clients (never read; with a feeder their outgoing ring is full and a delivery waits on it); named deviation DevStalledReceiver = known finding stalled-receiver.",
    "C20": " ClientConn specification: Connect over all histories (<= 3-4 steps) of one client identifier; InStraySpec: inbound QoS 2 exchanges with stray acknowledgements of colliding identifiers; the replayer overwrites the message object after every client call returns.",
}
for _pid, _t in ADDED.items():
    CLAIMED[_pid]["text"] += _t

# additions of round 9
ADDED9 = {
    "C01": " The many-open-exchanges simulation (Q2ManySpec) is replayed under this property too (a message lost in the incoming QoS 2 queue is a delivery that never happens).",
    "C02": " QosResumeSpec: exchanges that span connections of a persistent session (PUBLISH and PUBREC on one connection, PUBREL on the next), all paths. Concurrent regime: recorded runs of a real broker under load validated by TLC against AnswerTrace (between two packets handled on a connection, the packets other than PUBLISH it enqueues are exactly the answer to the packet handled: one PUBACK / PUBREC / PUBCOMP with its identifier; nothing is owed when the run is quiet).",
    "C03": " Codec!Mods: protocol level of a decoded CONNECT changed through SetVersion (the protocol name follows the level).",
    "C07": " Sess1LastSpec (histories of a persistent session: resumed subscriptions are unsubscribed / re-subscribed like any other). Concurrent regime: AnswerTrace on recorded runs with subscription churn under load (every handled SUBSCRIBE / UNSUBSCRIBE answered exactly once with its identifier).",
    "C09": " Ending pings-disconnect-eof (a backlog of PINGREQs, the DISCONNECT and the end of the stream in one write). Trace validation: the life-cycle events of every broker connection of these runs (hook verifLife: start, goroutine exits, DISCONNECT seen, stop phases, will handed out) are validated by TLC against LifeTrace / Life: the will is handed out at most once, only after the join, iff the will flag of the connection's own CONNECT is still set, never after a DISCONNECT was handled.",
    "C10": " A wildcard filter in the session histories. The life-cycle events of the connections of these runs are validated against Life (a rejection there is reported under C16 / C09).",
    "C11": " PwSpec: a password-checking authenticator; accepted logins, ends and refused logins (right user name with a wrong / without a password, also with the client identifier of accepted connections) in every order, then a probe.",
    "C13": " Concurrent callers: 3,000 (thorough 40,000) trials on real queues brought to a full, wrapped ring, then the Wait that makes the ring grow, an Ack of the head entry and a third call released together by a spin barrier, then a sequential drain; the recorded call/return histories must be linearizable w.r.t. the AckQueue actions (AckQueueLinTrace, unlogged linearization points placed by TLC).",
    "C14": " A call that returns where the specification waits (producer in a full ring, consumer in an empty one) is this property's observation in the byte-granular cases too.",
    "C16": " Teardown refines the life-cycle skeleton Life (TLC: every Teardown step is a Life step or leaves Life's variables unchanged), and the hook events of every broker connection of the executed fault sequences are validated by TLC against LifeTrace (quick: 6.6 k recordings, 390 k events): stop joins only after the three goroutines have exited, nothing of a connection moves after stop.done, every started connection is done when all connections of its broker were ended. Ending ping-halfclose: the client shuts down its sending direction only (the broker reads the end of the stream while its writes still block).",
    "C20": " InManySpec: up to 40 inbound QoS 2 exchanges open at once (TLC simulation; the client's queue of incoming exchanges grows while its head has moved).",
}
for _pid, _t in ADDED9.items():
    CLAIMED[_pid]["text"] += _t

# additions of round 10
ADDED10 = {
    "C02": " RetQ2Spec: a QoS 2 PUBLISH with RETAIN becomes the retained message when it is released, not when it arrives (subscriptions between PUBLISH and PUBREL), all paths.",
    "C03": " Codec!Mods, clone obligation: a clone of one message, then a clone of another, then changes to the original - both clones keep their fields and encode to the bytes of the messages they were cloned from.",
    "C04": " Codec!Mods, reuse obligation: a message object that holds a decoded packet is decoded into again and holds exactly the fields of the second packet afterwards (4.3 k pairs; found the defect fixed in 96863a4).",
    "C05": " Attacker kinds post-refused-filter (a SUBSCRIBE whose filters the broker rejects) and post-unsubscribe-unknown.",
    "C08": " Broker!ApiSubscribeErr: an in-process subscriber at a lower QoS whose callback reports an error for the retained message it is handed (the stored message stays what it was).",
    "C09": " The end of a connection by keep-alive expiry: the KeepAlive schedules that end in an expiry (fresh session, resumed session, next to a rival connection with the same client identifier) run in real time with K = 1 s, the will reaches the witness exactly once.",
    "C12": " Requests for which the application passes no completion callback (constant NoCb of the Client specification) are released together with requests that have one.",
    "C16": " The witness publisher of the fault sequences connects without a client identifier: at the end the session the broker named for it is gone like every other.",
    "C17": " Recorded runs include a client with a persistent session that connects and leaves twelve times per run while an in-process publisher floods its stored subscription: every one of its connections starts with the CONNACK, whole, and goes on in whole packets.",
    "C19": " prior = rival: a second connection presents the same client identifier while the observed one is up.",
}
for _pid, _t in ADDED10.items():
    CLAIMED[_pid]["text"] += _t

# additions of round 11
ADDED11 = {
    "C01": " SubsLastSpec (UNSUBSCRIBE lists with filters the connection does not hold in front of filters it holds) is replayed under this property too.",
    "C03": " Every reference case is encoded twice, the caller's first destination overwritten in between; in Codec!Mods a setter (DUP) is called after the message has been encoded once and the message encoded again.",
    "C04": " Concurrent decoders: 8 goroutines decode their own CONNECT / SUBSCRIBE / PUBLISH packets into their own message objects (the death of the process - a Go runtime abort cannot be recovered - is the observation).",
    "C05": " FwdManySpec (TLC simulation): a subscriber that acknowledges one QoS 1 delivery in three, so that the request queue the broker keeps for it - filled by the publisher's processor - grows after its head has moved: the publisher is not hurt.",
    "C09": " A will whose PUBLISH has a remaining length of exactly 128 (W6 in WillEofSpec).",
    "C10": " SessHalfSpec: histories of a persistent session whose connection goes half dead (Broker!BreakOut: the broker's writes fail, the client's packets still arrive), all paths + probe.",
    "C12": " Client!AppPublishD: a PUBLISH the application sends with the DUP flag set is a request like any other; FwdManySpec under this property too (broker as sender with many requests outstanding).",
}
for _pid, _t in ADDED11.items():
    CLAIMED[_pid]["text"] += _t

# additions of round 12
ADDED12 = {
    "C07": " UnsubRaceSpec (Broker!UnsubscribeWide): an UNSUBSCRIBE with 900 filters nobody holds in front of the real one; the replayer waits for the UNSUBACK and for nothing else and sends the next stimulus from another connection at once - what is accepted after the UNSUBACK was sent is not delivered.",
    "C11": " Refusal kind stall-halfconnect: while a connection is stuck in the middle of its CONNECT another client connects and gets CONNACK 0.",
    "C13": " Thorough tier: 40,000 requests in flight on one queue (AckQueueLinTrace!BigSetup).",
    "C19": " The server's own KeepAlive configuration option is set to 1 s in every run (what counts is what the CONNECT negotiated).",
}
for _pid, _t in ADDED12.items():
    CLAIMED[_pid]["text"] += _t
CLAIMED["C13"]["note"] = CLAIMED["C13"]["note"].replace("one caller at a time.", "one caller at a time in the graph walks and random drivers; concurrent callers in the linearizability trials (interleavings are whatever the scheduler produces around a spin barrier).")
CLAIMED["C13"]["technique"] = "TLA+ specification (AckQueue) model-checked with TLC; state-graph replay + TLC trace validation (AckQueueTrace, AckQueueLinTrace)"
CLAIMED["C16"]["technique"] = CLAIMED["C16"]["technique"] + "; life-cycle hook events validated by TLC against LifeTrace (Life is refined by Teardown)"

NOT_APPLICABLE = {
    "C18": "data-race freedom is a property of individual memory accesses under the Go memory model; a TLA+ specification "
           "observes actions, not loads and stores, and could only be bound to the code by hand-placed annotations (DESIGN.md section 7)",
}

PENDING = "not claimed; check not built (build in progress; see DESIGN.md section 10 for the order)"


def main():
    props = [json.loads(l)["id"] for l in open(os.path.join(ROOT, "properties.jsonl"))]
    checks = []
    for pid in props:
        if pid not in CLAIMED:
            continue
        c = CLAIMED[pid]
        checks.append({
            "property_id": pid,
            "quick_cmd": "./verif check %s --tier quick" % pid,
            "thorough_cmd": "./verif check %s --tier thorough" % pid,
            "evidence_file": "/verif/evidence/%s.json" % pid,
            "replay_cmd_template": "./verif replay {path}",
            "engine": "tlc+harness",
            "level_claimed": {"category": c.get("category", "model_checking"), "text": c["text"],
                              "design_ref": "DESIGN.md section " + c["design"]},
            "level_note": c["note"],
            "technique": c["technique"],
        })
    na = []
    for pid in props:
        if pid in CLAIMED:
            continue
        na.append({"property_id": pid, "reason": NOT_APPLICABLE.get(pid, PENDING)})
    m = {
        "version": 1,
        "setup_cmd": "./verif setup",
        "hooks": {
            "guard": "verif",
            "enable": "go build -tags verif (the harness module generated under /verif/.build replaces github.com/mdzio/go-mqtt by "
                      "$VERIF_REPO, default /repo)",
            "baseline_off_cmd": "./verif baseline",
            "source_commits": HOOK_COMMITS,
            "add_only": True,
        },
        "engines": [
            {"name": "tlc+harness", "path": "/verif/verif", "serves_properties": sorted(CLAIMED),
             "kind_free_text": "TLA+ specifications under /verif/spec checked with TLC; behaviours / state graphs generated by TLC are "
                               "replayed into the real code by the Go harness under /verif/harness, traces recorded from the real code "
                               "are validated by TLC against trace specifications"},
        ],
        "checks": checks,
        "not_applicable": na,
        "notes": "Exit codes of every check: 0 held, 1 violation observed on the real code (VIOLATION line), 2 infrastructure problem "
                 "(never a verdict). Known findings: /verif/known_findings.txt.",
    }
    with open(os.path.join(ROOT, "MANIFEST.json"), "w") as f:
        json.dump(m, f, indent=1)
    print("MANIFEST.json: %d checks, %d not applicable/pending" % (len(checks), len(na)))


if __name__ == "__main__":
    main()
