package main

import (
	"encoding/binary"
	"encoding/json"
	"fmt"
	"math/rand"
	"net"
	"os"
	"sync"
	"time"

	"github.com/mdzio/go-mqtt/message"
	"github.com/mdzio/go-mqtt/service"
)

// ---------------------------------------------------------------- C17 / C08 (B): recorded concurrent runs

type evLog struct {
	mu  sync.Mutex
	enc *json.Encoder
	n   int
}

func (l *evLog) add(ev map[string]interface{}) {
	l.mu.Lock()
	l.enc.Encode(ev)
	l.n++
	l.mu.Unlock()
}

// strict reference parse of what the broker sends to a subscriber / publisher
func strictParse(p rawPkt) (ty int, ok bool) {
	ty = int(p.first >> 4)
	fl := p.first & 0xf
	switch ty {
	case 3:
		if len(p.body) < 2 {
			return ty, false
		}
		tl := int(binary.BigEndian.Uint16(p.body))
		q := int(fl>>1) & 3
		if q == 3 || tl == 0 || 2+tl > len(p.body) || (q > 0 && 2+tl+2 > len(p.body)) {
			return ty, false
		}
		return ty, true
	case 4, 5, 7, 11:
		return ty, fl == 0 && len(p.body) == 2
	case 6:
		return ty, fl == 2 && len(p.body) == 2
	case 9:
		return ty, fl == 0 && len(p.body) >= 3
	case 13:
		return ty, fl == 0 && len(p.body) == 0
	case 2:
		return ty, fl == 0 && len(p.body) == 2
	}
	return ty, false
}

func pktLen(p rawPkt) int {
	var vb [5]byte
	return 1 + binary.PutUvarint(vb[:], uint64(len(p.body))) + len(p.body)
}

// fanin: recorded runs. Several publishers (raw clients and Server.Publish) send numbered messages of
// sizes that make the 16 KiB outgoing rings wrap mid-packet to shared subscribers; one client rewrites a
// retained topic while others subscribe to it. Every enq hook event and every packet read by a client
// is logged; TLC validates the log against OutStreamTrace.
func cmdFanIn(a Args) {
	seed := int64(a.num("seed", 1))
	runs := a.num("runs", 10)
	msgs := a.num("msgs", 30)
	retOnly := a.str("retonly", "") != "" // only the retained rewriter and the re-subscriber (C08), many more rounds
	out, err := os.Create(a.str("out", "trace.ndjson"))
	if err != nil {
		fatal("%v", err)
	}
	defer out.Close()
	log := &evLog{enc: json.NewEncoder(out)}
	res := newResult()
	svcName := sync.Map{} // service id -> connection name
	extraEventSink = func(seq uint64, ev string, svc uint64, ta, tb, tc int64, s string) {
		if ev == "enq" {
			if name, ok := svcName.Load(svc); ok {
				log.add(map[string]interface{}{"e": "enq", "s": name, "ty": ta, "len": tc, "id": tb})
			}
		}
		// a packet of a connection has been handled and committed by its processor (AnswerTrace)
		if ev == "proc" {
			if name, ok := svcName.Load(svc); ok {
				log.add(map[string]interface{}{"e": "proc", "s": name, "ty": ta, "id": tb})
			}
		}
		// the broker has handled (and therefore retained) one more generation of the rewriter
		if ev == "proc" && ta == 3 {
			if name, ok := svcName.Load(svc); ok && name == "rw" {
				subStartMu.Lock()
				curGen++
				log.add(map[string]interface{}{"e": "acc", "g": curGen})
				subStartMu.Unlock()
			}
		}
	}
	defer func() { extraEventSink = nil }()
	for run := 0; run < runs; run++ {
		rng := rand.New(rand.NewSource(seed*104729 + int64(run)))
		r := newBrokerRun("mockSuccess", 2)
		fr := &faultRun{r: r, cl: map[string]*fClient{}}
		log.add(map[string]interface{}{"e": "reset"})
		subStartMu.Lock()
		curGen, curSub, subStarts = 0, 0, nil
		subStartMu.Unlock()
		npub := 2 + rng.Intn(3)
		nsub := 1 + rng.Intn(2)
		if retOnly {
			npub, nsub = 0, 0
		}
		var wg sync.WaitGroup
		var readers sync.WaitGroup
		stop := make(chan struct{})
		abort := make(chan struct{})
		var abortOnce sync.Once
		conns := map[string]net.Conn{}
		fail := ""
		// connect everything first (sequentially: the admit order gives the service ids)
		open := func(name, cid string, subs ...string) net.Conn {
			bev.mu.Lock()
			n0 := len(bev.admit)
			bev.mu.Unlock()
			m, err := r.rawConnect(name, bAct{K: cid, Clean: true, Ka: 600})
			if err != nil {
				fail = "INFRA connect: " + err.Error()
				return nil
			}
			deadline := time.Now().Add(3 * time.Second)
			for m.svc == 0 && time.Now().Before(deadline) {
				bev.mu.Lock()
				if len(bev.admit) > n0 {
					m.svc = bev.admit[len(bev.admit)-1]
				}
				bev.mu.Unlock()
				time.Sleep(50 * time.Microsecond)
			}
			svcName.Store(m.svc, name)
			conns[name] = m.c
			for i, f := range subs {
				m.c.Write(pkt(0x82, append([]byte{0, byte(i + 1)}, append(lp([]byte(f)), 2)...)))
				p, err := readPkt(m.c, 3*time.Second)
				if err != nil {
					fail = "INFRA subscribe: " + err.Error()
					return nil
				}
				log.add(map[string]interface{}{"e": "recv", "s": name, "ty": int(p.first >> 4), "len": pktLen(p), "p": -1, "n": 0})
			}
			return m.c
		}
		_ = fr
		for i := 0; i < nsub && fail == ""; i++ {
			if i == 0 {
				open("s0", "fs0", "o/#", "q/#") // only s0 also listens to the second in-process publisher
			} else {
				open(fmt.Sprintf("s%d", i), fmt.Sprintf("fs%d", i), "o/#")
			}
		}
		for i := 0; i < npub && fail == ""; i++ {
			open(fmt.Sprintf("p%d", i), fmt.Sprintf("fp%d", i))
		}
		open("rw", "frw")
		open("rs", "frs")
		if fail != "" {
			res.Notes = append(res.Notes, fail)
			res.Counts["infra"]++
			r.cleanup()
			continue
		}
		// readers: every client parses its stream strictly and logs what it reads
		reader := func(name string, c net.Conn) {
			defer readers.Done()
			for {
				p, err := readPkt(c, time.Hour)
				if err != nil {
					return
				}
				ty, ok := strictParse(p)
				if !ok || len(p.body) > 70000 {
					log.add(map[string]interface{}{"e": "bad", "s": name})
					abortOnce.Do(func() { close(abort) })
					return
				}
				ev := map[string]interface{}{"e": "recv", "s": name, "ty": ty, "len": pktLen(p), "p": -1, "n": 0}
				if ty == 9 && name == "rs" {
					// SUBACKs come in the order of the SUBSCRIBEs: what follows belongs to the oldest pending one
					subStartMu.Lock()
					if len(subStarts) > 0 {
						curSub = subStarts[0]
						subStarts = subStarts[1:]
					}
					subStartMu.Unlock()
				}
				if ty == 3 {
					tl := int(binary.BigEndian.Uint16(p.body))
					topic := string(p.body[2 : 2+tl])
					rest := p.body[2+tl:]
					if (p.first>>1)&3 > 0 {
						rest = rest[2:]
					}
					if len(topic) > 3 && (topic[:3] == "o/p" || topic[:3] == "q/p") && len(rest) >= 8 {
						ev["p"] = int(binary.BigEndian.Uint32(rest[0:4]))
						ev["n"] = int(binary.BigEndian.Uint32(rest[4:8]))
					}
					if name == "rs" && topic == "ret/x" {
						g := int(binary.BigEndian.Uint32(rest[0:4]))
						ok := true
						for _, b := range rest[4:] {
							if b != byte(g) {
								ok = false
							}
						}
						subStartMu.Lock()
						g0 := curSub // the SUBSCRIBE whose SUBACK was read last
						subStartMu.Unlock()
						if p.first&1 == 0 {
							g0 = 0 // a live forward (it precedes the proc event): only the integrity of the payload is judged
						}
						log.add(map[string]interface{}{"e": "got", "s": name, "g": g, "g0": g0, "ok": ok})
					}
				}
				log.add(ev)
			}
		}
		for name, c := range conns {
			readers.Add(1)
			go reader(name, c)
		}
		// publishers
		for i := 0; i < npub; i++ {
			wg.Add(1)
			go func(i int) {
				defer wg.Done()
				prng := rand.New(rand.NewSource(seed*7 + int64(run*100+i)))
				c := conns[fmt.Sprintf("p%d", i)]
				q := i % 3
				for n := 0; n < msgs; n++ {
					size := 5800 + prng.Intn(64)
					if prng.Intn(3) == 0 {
						size = 20 + prng.Intn(200)
					}
					pl := make([]byte, size)
					binary.BigEndian.PutUint32(pl[0:4], uint32(i))
					binary.BigEndian.PutUint32(pl[4:8], uint32(n))
					body := lp([]byte(fmt.Sprintf("o/p%d", i)))
					if q > 0 {
						body = append(body, byte((n+1)>>8), byte(n+1))
					}
					c.SetWriteDeadline(time.Now().Add(10 * time.Second))
					if _, err := c.Write(pkt(0x30|byte(q)<<1, append(body, pl...))); err != nil {
						return
					}
					if q == 2 { // release at once: hand-over happens at PUBREL
						c.Write([]byte{0x62, 2, byte((n + 1) >> 8), byte(n + 1)})
					}
				}
			}(i)
		}
		// an in-process publisher (Server.Publish) with its own sequence
		wg.Add(1)
		go func() {
			defer wg.Done()
			for n := 0; n < msgs && !retOnly; n++ {
				pl := make([]byte, 5900)
				binary.BigEndian.PutUint32(pl[0:4], 7)
				binary.BigEndian.PutUint32(pl[4:8], uint32(n))
				m := message.NewPublishMessage()
				m.SetTopic([]byte("o/p7"))
				m.SetPayload(pl)
				m.SetQoS(0)
				r.svr.Publish(m)
			}
		}()
		// a second in-process publisher on a topic with a different subscriber set, concurrent with the first
		// (Server.Publish is called from several goroutines of an application)
		wg.Add(1)
		go func() {
			defer wg.Done()
			for n := 0; n < msgs && !retOnly; n++ {
				pl := make([]byte, 300)
				binary.BigEndian.PutUint32(pl[0:4], 8)
				binary.BigEndian.PutUint32(pl[4:8], uint32(n))
				m := message.NewPublishMessage()
				m.SetTopic([]byte("q/p8"))
				m.SetPayload(pl)
				m.SetQoS(0)
				r.svr.Publish(m)
			}
		}()
		// retained rewriter and re-subscriber (C08 concurrent part)
		wg.Add(1)
		go func() {
			defer wg.Done()
			c := conns["rw"]
			for g := 1; g <= msgs*2; g++ {
				pl := make([]byte, 4+3000+(g%2)*1000)
				binary.BigEndian.PutUint32(pl[0:4], uint32(g))
				for k := 4; k < len(pl); k++ {
					pl[k] = byte(g)
				}
				log.add(map[string]interface{}{"e": "put", "g": g})
				c.SetWriteDeadline(time.Now().Add(10 * time.Second))
				if _, err := c.Write(pkt(0x31, append(lp([]byte("ret/x")), pl...))); err != nil {
					return
				}
			}
		}()
		wg.Add(1)
		go func() {
			defer wg.Done()
			c := conns["rs"]
			for k := 0; k < msgs; k++ {
				subStartMu.Lock()
				subStarts = append(subStarts, curGen)
				subStartMu.Unlock()
				c.SetWriteDeadline(time.Now().Add(10 * time.Second))
				if _, err := c.Write(pkt(0x82, append([]byte{0, 9}, append(lp([]byte("ret/x")), 0)...))); err != nil {
					return
				}
				time.Sleep(time.Duration(200+rand.Intn(400)) * time.Microsecond)
				c.Write(pkt(0xa2, append([]byte{0, 10}, lp([]byte("ret/x"))...)))
				time.Sleep(100 * time.Microsecond)
			}
		}()
		// a client with a persistent session that comes and goes while messages for its stored subscription are being
		// published: the stream of every one of its connections starts with the CONNACK, whole, and goes on in whole packets
		// (its packets are not part of the enq/recv accounting: a malformed stream is logged as a `bad` event)
		if !retOnly {
			floodStop := make(chan struct{})
			var floodWg sync.WaitGroup
			floodWg.Add(1)
			go func() {
				defer floodWg.Done()
				pl := make([]byte, 2000)
				for {
					select {
					case <-floodStop:
						return
					default:
					}
					m := message.NewPublishMessage()
					m.SetTopic([]byte("z/flood"))
					m.SetPayload(pl)
					m.SetQoS(0)
					r.svr.Publish(m)
				}
			}()
			wg.Add(1)
			go func() {
				defer wg.Done()
				defer func() { close(floodStop); floodWg.Wait() }()
				for k := 0; k < 12; k++ {
					bev.mu.Lock()
					n0 := len(bev.admit)
					bev.mu.Unlock()
					cl, sv := net.Pipe()
					if err := service.VerifServe(r.svr, sv); err != nil {
						return
					}
					go cl.Write(connectBytes(bAct{K: "frz", Clean: false, Ka: 600}))
					first := true
					for n := 0; n < 6; n++ {
						p, err := readPkt(cl, 3*time.Second)
						if err != nil {
							if first {
								log.add(map[string]interface{}{"e": "bad", "s": "rz", "why": "no CONNACK: " + err.Error()})
								abortOnce.Do(func() { close(abort) })
							}
							break
						}
						ty, ok := strictParse(p)
						if !ok || (first && ty != 2) || (!first && ty == 2) {
							log.add(map[string]interface{}{"e": "bad", "s": "rz", "why": fmt.Sprintf("packet %d of a resumed connection: type %d, well-formed %v (the first must be the CONNACK, and only the first)", n, ty, ok)})
							abortOnce.Do(func() { close(abort) })
							cl.Close()
							return
						}
						if first && k == 0 {
							// first connection of the session: subscribe
							cl.Write(pkt(0x82, append([]byte{0, 1}, append(lp([]byte("z/#")), 0)...)))
						}
						first = false
					}
					cl.Close()
					// no take-over in the library: the next connection of the session comes when this one is gone
					var svc uint64
					deadline := time.Now().Add(3 * time.Second)
					for svc == 0 && time.Now().Before(deadline) {
						bev.mu.Lock()
						if len(bev.admit) > n0 {
							svc = bev.admit[len(bev.admit)-1]
						}
						bev.mu.Unlock()
						time.Sleep(100 * time.Microsecond)
					}
					if svc != 0 {
						select {
						case <-bev.stopCh(svc):
						case <-time.After(5 * time.Second):
						}
					}
				}
			}()
		}
		donec := make(chan struct{})
		go func() { wg.Wait(); close(donec) }()
		aborted := false
		select {
		case <-donec:
		case <-abort:
			aborted = true
			res.Counts["aborted_runs"]++
		case <-time.After(20 * time.Second):
			res.Notes = append(res.Notes, fmt.Sprintf("run %d: publishers did not finish within 20 s", run))
			res.Counts["stuck_runs"]++
			aborted = true
		}
		// let the deliveries drain: a barrier on every connection
		time.Sleep(50 * time.Millisecond)
		for _, c := range conns {
			c.SetWriteDeadline(time.Now().Add(2 * time.Second))
			c.Write([]byte{0xc0, 0})
		}
		time.Sleep(150 * time.Millisecond)
		if !aborted {
			// everything has been sent and handled, every connection is still open
			log.add(map[string]interface{}{"e": "quiet"})
		}
		close(stop)
		for _, c := range conns {
			c.Close()
		}
		rdone := make(chan struct{})
		go func() { readers.Wait(); close(rdone) }()
		select {
		case <-rdone:
		case <-time.After(5 * time.Second):
		}
		r.cleanup()
		res.Evaluations++
		if aborted {
			break // the verdict is clear: the recording ends here
		}
	}
	res.Steps = log.n
	res.emit()
}

var (
	subStartMu sync.Mutex
	subStarts  []int // generations handled when each pending SUBSCRIBE was sent
	curSub     int
	curGen     int
)

func init() { commands["fanin"] = cmdFanIn }
