package main

import (
	"encoding/json"
	"fmt"
	"math/rand"
	"os"
)

// A specification state graph as emitted by TLC (EmitState / EmitEdge of a data-structure
// module) and compacted by the orchestrator.
type Edge struct {
	To int             `json:"to"`
	A  json.RawMessage `json:"a"`
	R  json.RawMessage `json:"r"`
}
type GState struct {
	ID    string          `json:"id"`
	Probe json.RawMessage `json:"p"`
	Out   []Edge          `json:"out"`
}
type Graph struct {
	Init   int      `json:"init"`
	States []GState `json:"states"`
}

// Model binds one specification module to the real object.
type Model interface {
	Reset()
	// Do executes the action on the real object and returns "" if the observed result equals
	// the specification's result r, else a description.
	Do(a, r json.RawMessage, check bool) string
	// Check compares the projection of the real object with the specification's probe.
	Check(probe json.RawMessage) string
}

func loadGraph(path string) *Graph {
	f, err := os.Open(path)
	if err != nil {
		fatal("graph: %v", err)
	}
	defer f.Close()
	g := &Graph{}
	if err := json.NewDecoder(f).Decode(g); err != nil {
		fatal("graph: %v", err)
	}
	return g
}

type pathStep struct {
	from int
	e    *Edge
}

func replayDesc(g *Graph, path []pathStep) interface{} {
	var steps []interface{}
	for _, s := range path {
		steps = append(steps, map[string]interface{}{"a": s.e.A, "r": s.e.R, "to": g.States[s.e.To].ID})
	}
	return map[string]interface{}{"path": steps}
}

// runPath resets the object, replays the path; checks result and probe of the last step only
// (shorter prefixes are checked when they are visited themselves), or of every step if all.
func runPath(g *Graph, m Model, path []pathStep, all bool, res *Result) bool {
	m.Reset()
	for i, s := range path {
		last := i == len(path)-1
		if d := m.Do(s.e.A, s.e.R, all || last); d != "" {
			res.mismatch(Mismatch{What: d, Replay: replayDesc(g, path[:i+1])})
			return false
		}
		if all || last {
			if d := m.Check(g.States[s.e.To].Probe); d != "" {
				res.mismatch(Mismatch{What: fmt.Sprintf("after %s: %s", string(s.e.A), d), Replay: replayDesc(g, path[:i+1])})
				return false
			}
		}
		res.Steps++
	}
	return true
}

// walkAll visits every path of length 1..depth from the initial state. Sub-trees below the
// prefixes of length 2 are distributed over shards; the nodes of length 1 belong to shard 0.
func walkAll(g *Graph, m Model, depth, shard, nshard int, res *Result) {
	var path []pathStep
	idx2 := 0
	var rec func(s, d, owner int)
	rec = func(s, d, owner int) {
		if d == depth {
			return
		}
		for i := range g.States[s].Out {
			e := &g.States[s].Out[i]
			path = append(path, pathStep{s, e})
			own := owner
			if len(path) < 2 {
				own = 0
			} else if len(path) == 2 {
				own = idx2 % nshard
				idx2++
			}
			ok := true
			if own == shard {
				res.Evaluations++
				ok = runPath(g, m, path, false, res)
			}
			if len(path) < 2 || (own == shard && ok) {
				rec(e.To, d+1, own)
			}
			path = path[:len(path)-1]
		}
	}
	rec(g.Init, 0, 0)
}

// walkRandom: n random walks of the given length, every step checked.
func walkRandom(g *Graph, m Model, n, length int, seed int64, res *Result) {
	rng := rand.New(rand.NewSource(seed))
	for i := 0; i < n; i++ {
		s := g.Init
		var path []pathStep
		for j := 0; j < length; j++ {
			out := g.States[s].Out
			if len(out) == 0 {
				break
			}
			e := &out[rng.Intn(len(out))]
			path = append(path, pathStep{s, e})
			s = e.To
		}
		res.Evaluations++
		runPath(g, m, path, true, res)
	}
}

// walkCover: one path per edge of the graph (BFS tree path to the source + the edge).
func walkCover(g *Graph, m Model, shard, nshard int, res *Result) {
	parent := make([]*pathStep, len(g.States))
	seen := make([]bool, len(g.States))
	queue := []int{g.Init}
	seen[g.Init] = true
	for len(queue) > 0 {
		s := queue[0]
		queue = queue[1:]
		for i := range g.States[s].Out {
			e := &g.States[s].Out[i]
			if !seen[e.To] {
				seen[e.To] = true
				parent[e.To] = &pathStep{s, e}
				queue = append(queue, e.To)
			}
		}
	}
	n := 0
	for s := range g.States {
		if !seen[s] {
			continue
		}
		for i := range g.States[s].Out {
			n++
			if n%nshard != shard {
				continue
			}
			var rev []pathStep
			for x := s; parent[x] != nil; x = parent[x].from {
				rev = append(rev, *parent[x])
			}
			path := make([]pathStep, 0, len(rev)+1)
			for j := len(rev) - 1; j >= 0; j-- {
				path = append(path, rev[j])
			}
			path = append(path, pathStep{s, &g.States[s].Out[i]})
			res.Evaluations++
			runPath(g, m, path, false, res)
		}
	}
}

var models = map[string]func(Args) Model{}

// graphwalk -model M -graph file -mode paths|random|cover ...
func cmdGraphWalk(a Args) {
	mk, ok := models[a.str("model", "")]
	if !ok {
		fatal("unknown model %q", a.str("model", ""))
	}
	g := loadGraph(a.str("graph", ""))
	m := mk(a)
	res := newResult()
	shard, nshard := a.num("shard", 0), a.num("nshard", 1)
	switch a.str("mode", "paths") {
	case "paths":
		walkAll(g, m, a.num("depth", 3), shard, nshard, res)
	case "random":
		walkRandom(g, m, a.num("walks", 100), a.num("len", 50), int64(a.num("seed", 1))*7919+int64(shard), res)
	case "cover":
		walkCover(g, m, shard, nshard, res)
	}
	res.emit()
}

func init() { commands["graphwalk"] = cmdGraphWalk }
