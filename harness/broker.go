package main

import (
	"bytes"
	"encoding/binary"
	"encoding/json"
	"fmt"
	"io"
	"net"
	"sort"
	"strconv"
	"strings"
	"sync"
	"sync/atomic"
	"time"

	mqttauth "github.com/mdzio/go-mqtt/auth"
	"github.com/mdzio/go-mqtt/message"
	"github.com/mdzio/go-mqtt/service"
	"github.com/mdzio/go-mqtt/sessions"
	"github.com/mdzio/go-mqtt/topics"
)

// ---------------------------------------------------------------- raw wire helpers

func lp(b []byte) []byte {
	o := make([]byte, 2+len(b))
	binary.BigEndian.PutUint16(o, uint16(len(b)))
	copy(o[2:], b)
	return o
}

func pkt(first byte, body []byte) []byte {
	var vb [5]byte
	n := binary.PutUvarint(vb[:], uint64(len(body)))
	return append(append([]byte{first}, vb[:n]...), body...)
}

type rawPkt struct {
	first byte
	body  []byte
}

func readPkt(c net.Conn, d time.Duration) (rawPkt, error) {
	c.SetReadDeadline(time.Now().Add(d))
	var h [1]byte
	if _, err := io.ReadFull(c, h[:]); err != nil {
		return rawPkt{}, err
	}
	rl, mult := 0, 1
	for i := 0; ; i++ {
		var b [1]byte
		if _, err := io.ReadFull(c, b[:]); err != nil {
			return rawPkt{}, err
		}
		rl += int(b[0]&0x7f) * mult
		mult *= 128
		if b[0]&0x80 == 0 {
			break
		}
		if i >= 3 {
			return rawPkt{}, fmt.Errorf("malformed remaining length from the broker")
		}
	}
	body := make([]byte, rl)
	_, err := io.ReadFull(c, body)
	return rawPkt{h[0], body}, err
}

// ---------------------------------------------------------------- specification records

type bWill struct {
	On bool   `json:"on"`
	T  string `json:"t"`
	Pl string `json:"pl"`
	Q  int    `json:"q"`
	R  bool   `json:"r"`
}
type bReq struct {
	F string `json:"f"`
	Q int    `json:"q"`
}
type bAct struct {
	A      string   `json:"a"`
	C      string   `json:"c"`
	K      string   `json:"k"`
	Clean  bool     `json:"clean"`
	Will   bWill    `json:"will"`
	ID     int      `json:"id"`
	Req    []bReq   `json:"req"`
	Fs     []string `json:"fs"`
	T      string   `json:"t"`
	Q      int      `json:"q"`
	R      bool     `json:"r"`
	Pl     string   `json:"pl"`
	Dup    bool     `json:"dup"`
	How    string   `json:"how"`
	Kind   string   `json:"kind"`
	Follow string   `json:"follow"`
	L      string   `json:"l"`
	F      string   `json:"f"`
	Ka     int      `json:"ka"`
	Ty     string   `json:"ty"`
	Form   string   `json:"form"`
}
type bPkt struct {
	Ty    string `json:"ty"`
	ID    int    `json:"id"`
	Q     int    `json:"q"`
	R     bool   `json:"r"`
	Dup   bool   `json:"dup"`
	T     string `json:"t"`
	Pl    string `json:"pl"`
	Codes []int  `json:"codes"`
	Sp    bool   `json:"sp"`
	Code  int    `json:"code"`
	Via   string `json:"via"`
}
type bStep struct {
	A      bAct                `json:"a"`
	Out    map[string][][]bPkt `json:"out"`
	Closed map[string]bool     `json:"closed"`
	Nsess  int                 `json:"nsess"`
}

// selective authenticator: accepts the user "good" only
type selAuth struct{}

func (selAuth) Authenticate(id string, cred interface{}) error {
	if id == "good" {
		return nil
	}
	return fmt.Errorf("rejected")
}

// password authenticator: user "good" with password "pw", nobody else
type pwAuth struct{}

func (pwAuth) Authenticate(id string, cred interface{}) error {
	if s, ok := cred.(string); ok && id == "good" && s == "pw" {
		return nil
	}
	return fmt.Errorf("rejected")
}

var selAuthOnce sync.Once

// payload tags: "" empty, "B..." big (about 40 % of a 16 KiB ring: consecutive packets wrap it),
// "M" the largest payload the property covers, anything else small. Different tags, different bytes.
func brokerPayload(tag string) []byte {
	if tag == "" {
		return nil
	}
	n := 3 + 5*len(tag)
	if strings.HasPrefix(tag, "B") {
		n = 6000 + 100*len(tag)
	}
	if tag == "M" {
		n = 16384 - 8192 - 16
	}
	if tag == "T125" {
		n = 125 // with a one-byte topic at QoS 0 the PUBLISH has a remaining length of exactly 128: two length bytes
	}
	if tag == "MID" {
		n = 12000 // fits a 16 KiB ring, but not next to a read block of 8 KiB (only a will can be that long: it arrives in the CONNECT)
	}
	if tag == "HUGE" {
		n = 20000 // more than a 16 KiB ring holds: cannot arrive through a ring, only inside a CONNECT (will)
	}
	b := make([]byte, n)
	for i := range b {
		b[i] = tag[i%len(tag)] ^ byte(i*13) ^ byte(i>>8)
	}
	copy(b, tag)
	return b
}

// wireTopic expands the level names that stand for long levels: "LONG" is a level of 130 characters (with it a request's
// remaining length needs two bytes, while other entries of the request may be shorter than its fixed header)
func wireTopic(t string) string {
	if !strings.Contains(t, "LONG") {
		return t
	}
	return strings.ReplaceAll(t, "LONG", strings.Repeat("l", 130))
}

// specTopic is the inverse of wireTopic for topics the broker sends
func specTopic(t string) string {
	long := strings.Repeat("l", 130)
	if !strings.Contains(t, long) {
		return t
	}
	return strings.ReplaceAll(t, long, "LONG")
}

// fragConn cuts every write of a client into segments (-frag 1: after the first byte, 2: in the middle, 3: before the
// last byte, 4: byte by byte for packets up to 64 bytes): what the broker makes of a packet may not depend on how the
// transport delivers its bytes.
// pipeMode: a CONNECT and the packet the same connection sends next reach the broker in one write (a client that does not
// wait for the CONNACK); the outputs of the two steps are compared together
var pipeMode bool

// skipConn swallows the next `skip` writes (the bytes went out earlier, together with the CONNECT)
type skipConn struct {
	net.Conn
	skip int32
}

func (s *skipConn) Write(p []byte) (int, error) {
	if atomic.LoadInt32(&s.skip) > 0 {
		atomic.AddInt32(&s.skip, -1)
		return len(p), nil
	}
	return s.Conn.Write(p)
}

// packetFor: the single packet a step makes its connection send (nil: the step is something else)
func packetFor(a bAct) []byte {
	switch a.A {
	case "subscribe":
		body := []byte{byte(a.ID >> 8), byte(a.ID)}
		for _, rq := range a.Req {
			body = append(append(body, lp([]byte(wireTopic(rq.F)))...), byte(rq.Q))
		}
		return pkt(0x82, body)
	case "unsubscribe":
		body := []byte{byte(a.ID >> 8), byte(a.ID)}
		for _, f := range a.Fs {
			body = append(body, lp([]byte(wireTopic(f)))...)
		}
		return pkt(0xa2, body)
	case "publish":
		first := byte(0x30) | byte(a.Q)<<1
		if a.R {
			first |= 1
		}
		if a.Dup {
			first |= 8
		}
		body := lp([]byte(wireTopic(a.T)))
		if a.Q > 0 {
			body = append(body, byte(a.ID>>8), byte(a.ID))
		}
		return pkt(first, append(body, brokerPayload(a.Pl)...))
	case "pubrel":
		return []byte{0x62, 2, byte(a.ID >> 8), byte(a.ID)}
	case "end":
		if a.How == "disconnect" {
			return []byte{0xe0, 0}
		}
	}
	return nil
}

type fragConn struct {
	net.Conn
	mode int
}

func (f fragConn) Write(p []byte) (int, error) {
	cut := 0
	switch {
	case f.mode == 1 && len(p) > 1:
		cut = 1
	case f.mode == 2 && len(p) > 3:
		cut = len(p) / 2
	case f.mode == 3 && len(p) > 2:
		cut = len(p) - 1
	case f.mode == 4 && len(p) > 1 && len(p) <= 64:
		for i := range p {
			if _, err := f.Conn.Write(p[i : i+1]); err != nil {
				return i, err
			}
		}
		return len(p), nil
	}
	if cut == 0 {
		return f.Conn.Write(p)
	}
	if n, err := f.Conn.Write(p[:cut]); err != nil {
		return n, err
	}
	n, err := f.Conn.Write(p[cut:])
	return cut + n, err
}

var fragMode = 0

// eofJoinConn is the broker's side of a connection. Once join is set, the end of the stream is reported together with the
// last bytes read - (n, io.EOF) from one Read, as the io.Reader contract allows and TLS connections do - instead of by a
// separate Read: a packet that arrives like that has arrived.
type eofJoinConn struct {
	net.Conn
	join    int32
	pending []byte
	wbroken int32 // the direction broker -> client is dead: writes fail, reads go on
}

func (c *eofJoinConn) Write(b []byte) (int, error) {
	if atomic.LoadInt32(&c.wbroken) == 1 {
		return 0, fmt.Errorf("write: broken pipe")
	}
	return c.Conn.Write(b)
}

func (c *eofJoinConn) Read(b []byte) (int, error) {
	if len(c.pending) > 0 {
		n := copy(b, c.pending)
		c.pending = c.pending[n:]
		return n, nil
	}
	n, err := c.Conn.Read(b)
	if n > 0 && err == nil && atomic.LoadInt32(&c.join) == 1 {
		var one [1]byte
		c.Conn.SetReadDeadline(time.Now().Add(300 * time.Millisecond))
		m, e2 := c.Conn.Read(one[:])
		c.Conn.SetReadDeadline(time.Time{})
		if m > 0 {
			c.pending = append(c.pending, one[0])
		} else if e2 == io.EOF {
			return n, io.EOF
		}
	}
	return n, err
}

var payloadTags = []string{"x", "y", "z", "w", "w1", "w2", "w3", "B", "B2", "M", "p1", "p2", "MID", "HUGE", "T125"}

func init() {
	// "m<id>": one payload per packet identifier (configurations with many exchanges open at once)
	for i := 1; i <= 40; i++ {
		payloadTags = append(payloadTags, fmt.Sprintf("m%d", i))
	}
}

func tagOf(b []byte) string {
	if len(b) == 0 {
		return ""
	}
	for _, t := range payloadTags {
		p := brokerPayload(t)
		if len(p) == len(b) && string(p) == string(b) {
			return t
		}
	}
	return fmt.Sprintf("?%d:%x", len(b), short(string(b), 8))
}

func (p bPkt) key() string {
	id := fmt.Sprint(p.ID)
	if p.Ty == "PUBLISH" && p.ID != 0 {
		id = "nz"
	}
	if p.Ty == "PUBREL" && p.ID != 0 {
		id = "nz" // checked separately against the PUBREC it answers
	}
	return fmt.Sprintf("%s id=%s q=%d r=%v t=%s pl=%s codes=%v sp=%v code=%d", p.Ty, id, p.Q, p.R, p.T, p.Pl, p.Codes, p.Sp, p.Code)
}

func decodeRaw(p rawPkt) bPkt {
	u16 := func(b []byte) int {
		if len(b) < 2 {
			return -9
		}
		return int(binary.BigEndian.Uint16(b))
	}
	switch p.first >> 4 {
	case 2:
		if len(p.body) != 2 {
			return bPkt{Ty: "MALFORMED-CONNACK"}
		}
		return bPkt{Ty: "CONNACK", Sp: p.body[0]&1 == 1, Code: int(p.body[1])}
	case 9:
		m := bPkt{Ty: "SUBACK", ID: u16(p.body)}
		if len(p.body) >= 2 {
			for _, c := range p.body[2:] {
				m.Codes = append(m.Codes, int(c))
			}
		}
		return m
	case 11:
		return bPkt{Ty: "UNSUBACK", ID: u16(p.body)}
	case 4:
		return bPkt{Ty: "PUBACK", ID: u16(p.body)}
	case 5:
		return bPkt{Ty: "PUBREC", ID: u16(p.body)}
	case 6:
		return bPkt{Ty: "PUBREL", ID: u16(p.body)}
	case 7:
		return bPkt{Ty: "PUBCOMP", ID: u16(p.body)}
	case 13:
		return bPkt{Ty: "PINGRESP"}
	case 3:
		tl := u16(p.body)
		if tl < 0 || 2+tl > len(p.body) {
			return bPkt{Ty: "MALFORMED-PUBLISH"}
		}
		m := bPkt{Ty: "PUBLISH", T: specTopic(string(p.body[2 : 2+tl])), Q: int(p.first>>1) & 3, R: p.first&1 == 1, Dup: p.first&8 != 0}
		rest := p.body[2+tl:]
		if m.Q > 0 {
			if len(rest) < 2 {
				return bPkt{Ty: "MALFORMED-PUBLISH"}
			}
			m.ID = u16(rest)
			if m.ID == 0 {
				m.ID = -7 // identifier 0 on the wire
			}
			rest = rest[2:]
		}
		m.Pl = tagOf(rest)
		return m
	}
	return bPkt{Ty: fmt.Sprintf("type%d", p.first>>4)}
}

// ---------------------------------------------------------------- a real broker per behaviour

var brokerSeq uint64

type brokerEvents struct {
	mu      sync.Mutex
	admit   []uint64 // service ids in admission order
	stopped map[uint64]chan struct{}
}

var bev = &brokerEvents{stopped: map[uint64]chan struct{}{}}

func (e *brokerEvents) stopCh(id uint64) chan struct{} {
	e.mu.Lock()
	defer e.mu.Unlock()
	ch, ok := e.stopped[id]
	if !ok {
		ch = make(chan struct{})
		e.stopped[id] = ch
	}
	return ch
}

var extraEventSink func(seq uint64, ev string, svc uint64, a, b, c int64, s string)

func brokerEventFn(seq uint64, ev string, svc uint64, a, b, c int64, s string) {
	switch ev {
	case "admit":
		bev.mu.Lock()
		bev.admit = append(bev.admit, svc)
		bev.mu.Unlock()
	case "stop.done":
		ch := bev.stopCh(svc)
		select {
		case <-ch:
		default:
			close(ch)
		}
	}
	if f := extraEventSink; f != nil {
		f(seq, ev, svc, a, b, c, s)
	}
}

type bConn struct {
	broken bool // action "breakout": nothing the broker sends arrives any more; not compared, no barrier
	c      net.Conn
	srv    *eofJoinConn // the broker's side of the pipe
	half   *halfConn    // ... of a raw connection (fault sequences, keep-alive schedules)
	svc    uint64
	closed bool
	q1ids  []int // identifiers of QoS 1 / QoS 2 deliveries this client has not answered yet
	q2ids  []int
	relID  int // identifier of the last PUBREC this client sent
	// background reader (every connection is drained all the time: a fan-out larger than a ring
	// must not stall the publisher while the replayer looks at another connection)
	mu   sync.Mutex
	rx   []rawPkt
	eof  error
	sig  chan struct{}
	rdOn bool
}

func (m *bConn) startReader() {
	m.sig = make(chan struct{}, 1)
	m.rdOn = true
	go func() {
		for {
			p, err := readPkt(m.c, time.Hour)
			m.mu.Lock()
			if err != nil {
				m.eof = err
			} else {
				m.rx = append(m.rx, p)
			}
			m.mu.Unlock()
			select {
			case m.sig <- struct{}{}:
			default:
			}
			if err != nil {
				return
			}
		}
	}()
}

type localSub struct {
	fn    service.OnPublishFunc
	armed int32 // the callback reports an error for live messages once its subscription is established
	mu    sync.Mutex
	got   []bPkt
	name  string
}

type brokerRun struct {
	sp     *sessions.MemProvider
	tp     topics.Provider
	svr    *service.Server
	name   string
	conns  map[string]*bConn
	locals map[string]*localSub
	auth   string
	tmo    time.Duration
}

// the provider registries of the library are plain maps: registrations and the server's lazy
// configuration (which reads them) are serialised here when several brokers live in one process
var registryMu sync.Mutex

func newBrokerRun(auth string, maxqos int) *brokerRun {
	registryMu.Lock()
	defer registryMu.Unlock()
	service.VerifEventFn = brokerEventFn
	name := fmt.Sprintf("verif%d", atomic.AddUint64(&brokerSeq, 1))
	tp := topics.NewMemProvider()
	topics.Register(name, tp)
	sp := sessions.NewMemProvider()
	sessions.Register(name, sp)
	selAuthOnce.Do(func() { mqttauth.Register("verifSelective", selAuth{}); mqttauth.Register("verifPassword", pwAuth{}) })
	topics.MaxQosAllowed = byte(maxqos)
	if auth == "" {
		auth = "mockSuccess"
	}
	r := &brokerRun{sp: sp, tp: tp, name: name, conns: map[string]*bConn{}, locals: map[string]*localSub{}, auth: auth, tmo: 3 * time.Second}
	r.svr = &service.Server{BufferSize: 16384, TopicsProvider: name, SessionsProvider: name, Authenticator: auth, ConnectTimeout: 2}
	var none service.OnPublishFunc
	r.svr.Unsubscribe("verif/none", &none) // forces the configuration (provider look-up) now
	return r
}

func (r *brokerRun) cleanup() {
	for _, m := range r.conns {
		m.c.Close()
	}
	// wait briefly for teardowns so that goroutines do not pile up
	for _, m := range r.conns {
		if m.svc != 0 {
			select {
			case <-bev.stopCh(m.svc):
			case <-time.After(300 * time.Millisecond):
			}
		}
	}
	registryMu.Lock()
	topics.Unregister(r.name)
	sessions.Unregister(r.name)
	registryMu.Unlock()
}

func connectBytes(a bAct) []byte {
	flags := byte(0)
	if a.Clean {
		flags |= 2
	}
	cid := a.K
	if strings.HasPrefix(a.Form, "anon") {
		cid = "" // zero-length client identifier: the broker assigns one
	}
	tail := lp([]byte(cid))
	if a.Will.On {
		flags |= 4 | byte(a.Will.Q)<<3
		if a.Will.R {
			flags |= 32
		}
		tail = append(tail, lp([]byte(a.Will.T))...)
		tail = append(tail, lp(brokerPayload(a.Will.Pl))...)
	}
	ka := a.Ka
	if ka == 0 {
		ka = 60
	}
	if strings.Contains(a.Form, "ka0") {
		ka = 0
	}
	// every accepted client logs in as "good" (only a selective authenticator looks at it) unless the
	// form of the CONNECT says otherwise
	switch {
	case strings.Contains(a.Form, "nouser"):
	case strings.Contains(a.Form, "emptyuser"):
		flags |= 0x80
		tail = append(tail, lp(nil)...)
	case strings.Contains(a.Form, "emptypass"):
		flags |= 0xc0
		tail = append(tail, lp([]byte("good"))...)
		tail = append(tail, lp(nil)...)
	case strings.Contains(a.Form, "userpass"):
		flags |= 0xc0
		tail = append(tail, lp([]byte("good"))...)
		tail = append(tail, lp([]byte("pw"))...)
	default:
		flags |= 0x80
		tail = append(tail, lp([]byte("good"))...)
	}
	// forms "...rlN": a password is added whose length makes the remaining length of the CONNECT exactly N
	if i := strings.Index(a.Form, "rl"); i >= 0 {
		n, _ := strconv.Atoi(a.Form[i+2:])
		flags |= 0xc0
		if flags&0x80 == 0 || !bytes.Contains(tail, []byte("good")) {
			tail = append(tail, lp([]byte("good"))...)
		}
		have := 10 + len(tail) + 2
		if n > have {
			tail = append(tail, lp(bytes.Repeat([]byte{'p'}, n-have))...)
		}
	}
	body := append(lp([]byte("MQTT")), 4, flags, byte(ka>>8), byte(ka))
	return pkt(0x10, append(body, tail...))
}

// refusedFirstPacket builds the first packet of a connection that must be refused
func refusedFirstPacket(kind string) []byte {
	ok := func(proto string, level, flags byte, cid string) []byte {
		body := append(lp([]byte(proto)), level, flags, 0, 60)
		return pkt(0x10, append(body, lp([]byte(cid))...))
	}
	switch kind {
	case "level":
		return ok("MQTT", 5, 2, "rk")
	case "name":
		return ok("MQTX", 4, 2, "rk")
	case "idlong":
		return ok("MQTT", 4, 2, strings.Repeat("a", 33))
	case "idbad":
		return ok("MQTT", 4, 2, "bad\x01id")
	case "iddel": // the bytes next to the range of printable characters, 0x20..0x7e
		return ok("MQTT", 4, 2, "del\x7fid")
	case "idhigh":
		return ok("MQTT", 4, 2, "hi\x80id")
	case "idctl1f":
		return ok("MQTT", 4, 2, "\x1f")
	case "idempty0":
		return ok("MQTT", 4, 0, "")
	case "stall-halfconnect": // the first seven bytes of a valid CONNECT, and then nothing for a while
		return ok("MQTT", 4, 2, "rk")[:7]
	case "auth":
		return ok("MQTT", 4, 2, "rk")
	case "auth-badpw": // the user name of accepted logins with a wrong password, without one, and with the client id of accepted connections
		return pkt(0x10, append(append(append(append(lp([]byte("MQTT")), 4, 0xc2, 0, 60), lp([]byte("rk"))...), lp([]byte("good"))...), lp([]byte("no"))...))
	case "auth-nopw":
		return pkt(0x10, append(append(append(lp([]byte("MQTT")), 4, 0x82, 0, 60), lp([]byte("rk"))...), lp([]byte("good"))...))
	case "auth-k1-badpw":
		return pkt(0x10, append(append(append(append(lp([]byte("MQTT")), 4, 0xc2, 0, 60), lp([]byte("k1"))...), lp([]byte("good"))...), lp([]byte("pW"))...))
	case "auth-k1-clean": // rejected login that names the client id of somebody else's session
		return pkt(0x10, append(append(append(lp([]byte("MQTT")), 4, 0x82, 0, 60), lp([]byte("k1"))...), lp([]byte("evil"))...))
	case "abort-k1-keep": // a valid resume attempt for k1 that the client abandons before reading the CONNACK
		return pkt(0x10, append(append(append(lp([]byte("MQTT")), 4, 0x80, 0, 60), lp([]byte("k1"))...), lp([]byte("good"))...))
	case "remlen5": // a remaining length of five bytes (MQTT: at most four), announcing 34 GB
		return []byte{0x10, 0xff, 0xff, 0xff, 0xff, 0x7f}
	case "v3-truncated10": // MQTT 3.1 CONNECT ("MQIsdp", level 3) that ends right behind the connect flags
		return pkt(0x10, append(lp([]byte("MQIsdp")), 3, 2))
	case "v3-truncated11": // ... or after the first byte of the keep-alive
		return pkt(0x10, append(lp([]byte("MQIsdp")), 3, 2, 0))
	case "auth-k1-keep":
		return pkt(0x10, append(append(append(lp([]byte("MQTT")), 4, 0x80, 0, 60), lp([]byte("k1"))...), lp([]byte("evil"))...))
	case "reserved":
		return ok("MQTT", 4, 3, "rk")
	case "willflags":
		return ok("MQTT", 4, 2|8, "rk") // will QoS without will flag
	case "notconnect-ping":
		return []byte{0xc0, 0}
	case "notconnect-sub":
		return pkt(0x82, append([]byte{0, 1}, append(lp([]byte("#")), 1)...))
	case "notconnect-pub":
		return pkt(0x31, append(lp([]byte("a")), 'x'))
	case "truncated":
		return []byte{0x10, 0x02, 0x00, 0x00}
	case "truncated2":
		return pkt(0x10, append(lp([]byte("MQTT")), 4))
	case "garbage":
		return []byte{0xff, 0xff, 0xff, 0xff, 0xff, 0xff, 0xff, 0xff}
	case "badflags":
		return append([]byte{0x13}, ok("MQTT", 4, 2, "rk")[1:]...)
	}
	return []byte{0x00, 0x00}
}

// barrier: PINGREQ, then everything up to the PINGRESP
func (r *brokerRun) barrier(m *bConn) ([]bPkt, error) {
	if !m.rdOn {
		m.c.SetWriteDeadline(time.Now().Add(r.tmo))
		if _, err := m.c.Write([]byte{0xc0, 0}); err != nil {
			return nil, fmt.Errorf("write PINGREQ: %v", err)
		}
		var out []bPkt
		for {
			p, err := readPkt(m.c, r.tmo)
			if err != nil {
				return out, err
			}
			if p.first == 0xd0 {
				return out, nil
			}
			out = append(out, decodeRaw(p))
		}
	}
	m.c.SetWriteDeadline(time.Now().Add(r.tmo))
	if _, err := m.c.Write([]byte{0xc0, 0}); err != nil {
		return nil, fmt.Errorf("write PINGREQ: %v", err)
	}
	deadline := time.After(r.tmo)
	for {
		m.mu.Lock()
		for i, p := range m.rx {
			if p.first == 0xd0 {
				var out []bPkt
				for _, q := range m.rx[:i] {
					out = append(out, decodeRaw(q))
				}
				m.rx = append([]rawPkt(nil), m.rx[i+1:]...)
				m.mu.Unlock()
				return out, nil
			}
		}
		err := m.eof
		var got []bPkt
		if err != nil {
			for _, q := range m.rx {
				got = append(got, decodeRaw(q))
			}
		}
		m.mu.Unlock()
		if err != nil {
			return got, err
		}
		select {
		case <-m.sig:
		case <-deadline:
			m.mu.Lock()
			for _, q := range m.rx {
				got = append(got, decodeRaw(q))
			}
			m.mu.Unlock()
			return got, fmt.Errorf("no PINGRESP within %v", r.tmo)
		}
	}
}

func groupsEqual(exp [][]bPkt, got []bPkt) bool {
	i := 0
	for _, g := range exp {
		if i+len(g) > len(got) {
			return false
		}
		var a, b []string
		for _, p := range g {
			a = append(a, p.key())
		}
		for _, p := range got[i : i+len(g)] {
			b = append(b, p.key())
		}
		sort.Strings(a)
		sort.Strings(b)
		if strings.Join(a, "|") != strings.Join(b, "|") {
			return false
		}
		i += len(g)
	}
	return i == len(got)
}

func showGroups(exp [][]bPkt) string {
	var gs []string
	for _, g := range exp {
		var a []string
		for _, p := range g {
			a = append(a, p.key())
		}
		sort.Strings(a)
		gs = append(gs, "{"+strings.Join(a, " | ")+"}")
	}
	return strings.Join(gs, " ")
}

func showPkts(ps []bPkt) string {
	var a []string
	for _, p := range ps {
		a = append(a, p.key())
	}
	return "[" + strings.Join(a, " | ") + "]"
}

// tagFor says which property an observable belongs to
func tagFor(a bAct, exp [][]bPkt, got []bPkt, conn string) string {
	types := map[string]bool{}
	retained := false
	for _, g := range exp {
		for _, p := range g {
			types[p.Ty] = true
			if p.Ty == "PUBLISH" && p.R {
				retained = true
			}
		}
	}
	for _, p := range got {
		types[p.Ty] = true
		if p.Ty == "PUBLISH" && p.R {
			retained = true
		}
	}
	switch {
	case a.A == "subrec" || a.A == "suback":
		return "C12"
	case a.A == "stray":
		return "C02"
	case a.A == "refuse":
		return "C11"
	case a.A == "connect":
		if a.Form != "" && a.Form != "plain" {
			return "C11" // an acceptable CONNECT in another wire form must be answered like the plain one
		}
		return "C10"
	case a.A == "end":
		return "C09"
	case a.A == "subscribe" && conn == a.C:
		if retained || (types["PUBLISH"] && !types["SUBACK"]) {
			return "C08"
		}
		return "C07"
	case a.A == "unsubscribe" && conn == a.C:
		return "C07"
	case (a.A == "publish" || a.A == "pubrel") && conn == a.C && (types["PUBACK"] || types["PUBREC"] || types["PUBCOMP"]) && !types["PUBLISH"]:
		return "C02"
	case retained:
		return "C08"
	}
	return "C01"
}

type brokerMismatch struct {
	what string
	tag  string
}

// runBehaviour replays one behaviour of the Broker specification on a fresh real broker.
// brokerOwn: the tags of the running check ("" = all). A divergence of the session-store projection that belongs to
// another property does not end the behaviour: what the connections see afterwards is still compared.
var brokerOwn map[string]bool

// brokerOrderOnly: only the order in which a connection receives the messages of the behaviour's publisher is compared
var brokerOrderOnly bool

func runBehaviour(steps []bStep, auth string, maxqos int, res *Result) (result *brokerMismatch) {
	lifeRec.begin()
	var foreign *brokerMismatch
	defer func() { lifeRec.end(result == nil && foreign == nil) }() // after the clean-up: every connection has been ended
	r := newBrokerRun(auth, maxqos)
	defer r.cleanup()
	defer func() {
		if result == nil && foreign != nil {
			result = foreign
		}
	}()
	// order-only mode (C17): the publish steps per payload, the number of receipts per connection and payload, and the
	// publish step of the last message a connection received
	var pendingSkip *skipConn
	var carryGot map[string][]bPkt
	var carryExp map[string][][]bPkt
	pubSteps := map[string][]int{}
	nrecv := map[string]map[string]int{}
	lastStep := map[string]int{}
	for i, st := range steps {
		a := st.A
		got := map[string][]bPkt{}
		skipBarrier := map[string]bool{}
		pipedStep := false // this step's CONNECT went out together with the next step's packet
		if pendingSkip != nil {
			atomic.StoreInt32(&pendingSkip.skip, 1) // this step's packet is out already: its write is swallowed
			pendingSkip = nil
		}
		where := fmt.Sprintf("step %d %s", i, a.A)
		if a.A == "publish" && !a.Dup {
			pubSteps[a.T+" "+a.Pl] = append(pubSteps[a.T+" "+a.Pl], i)
		}
		switch a.A {
		case "connect", "refuse":
			cl0, sv := net.Pipe()
			var cl net.Conn = cl0
			if fragMode > 0 {
				cl = fragConn{Conn: cl0, mode: fragMode}
			}
			bev.mu.Lock()
			nAdmit := len(bev.admit)
			bev.mu.Unlock()
			srv := &eofJoinConn{Conn: sv}
			if err := service.VerifServe(r.svr, srv); err != nil {
				return &brokerMismatch{where + ": VerifServe: " + err.Error(), "INFRA"}
			}
			first := connectBytes(a)
			if a.A == "refuse" {
				first = refusedFirstPacket(a.Kind)
			}
			if pipeMode && a.A == "connect" && !strings.Contains(a.Form, "cut") && i+1 < len(steps) && steps[i+1].A.C == a.C {
				if b := packetFor(steps[i+1].A); b != nil && len(b) < 4000 {
					first = append(append([]byte(nil), first...), b...)
					sc := &skipConn{Conn: cl}
					cl = sc
					pipedStep = true
					pendingSkip = sc
					if steps[i+1].A.A == "end" {
						skipBarrier[a.C] = true
					}
				}
			}
			m := &bConn{c: cl, srv: srv}
			r.conns[a.C] = m
			werr := make(chan error, 1)
			go func() {
				cl.SetWriteDeadline(time.Now().Add(r.tmo))
				// forms "...-cutN": the same bytes arrive in two segments, cut after N bytes (N < 0: from the end)
				if i := strings.Index(a.Form, "cut"); i >= 0 {
					n, _ := strconv.Atoi(a.Form[i+3:])
					if n < 0 {
						n += len(first)
					}
					if n > 0 && n < len(first) {
						if _, err := cl.Write(first[:n]); err != nil {
							werr <- err
							return
						}
						time.Sleep(2 * time.Millisecond)
						_, err := cl.Write(first[n:])
						werr <- err
						return
					}
				}
				_, err := cl.Write(first)
				werr <- err
			}()
			if a.A == "connect" {
				p, err := readPkt(cl, r.tmo)
				if err != nil {
					return &brokerMismatch{fmt.Sprintf("%s(%s clean=%v): no CONNACK: %v", where, a.K, a.Clean, err), "C11"}
				}
				got[a.C] = []bPkt{decodeRaw(p)}
				<-werr
				// the admitted service
				deadline := time.Now().Add(r.tmo)
				for {
					bev.mu.Lock()
					if len(bev.admit) > nAdmit {
						m.svc = bev.admit[len(bev.admit)-1]
					}
					bev.mu.Unlock()
					if m.svc != 0 || time.Now().After(deadline) {
						break
					}
					time.Sleep(50 * time.Microsecond)
				}
				if m.svc == 0 {
					return &brokerMismatch{where + ": connection accepted (CONNACK) but never admitted", "C11"}
				}
				m.startReader()
			} else if strings.HasPrefix(a.Kind, "stall") {
				// a connection that is stuck in the middle of its CONNECT is nobody's business but its own: meanwhile
				// another client connects (CONNACK 0), disconnects, and only then the stalled one goes away
				select {
				case <-werr:
				case <-time.After(r.tmo):
				}
				pc, ps := net.Pipe()
				if err := service.VerifServe(r.svr, ps); err != nil {
					return &brokerMismatch{where + ": VerifServe: " + err.Error(), "INFRA"}
				}
				go pc.Write(connectBytes(bAct{K: "probe", Clean: true, Ka: 60}))
				// (well within the broker's connect timeout of 2 s: the answer must not have to wait for the stalled handshake to time out)
				p, err := readPkt(pc, time.Second)
				if err != nil || p.first != 0x20 || len(p.body) != 2 || p.body[1] != 0 {
					pc.Close()
					cl.Close()
					return &brokerMismatch{fmt.Sprintf("%s(%s): while a connection is stuck in the middle of its CONNECT, another client's CONNECT is not answered with CONNACK 0 (%v %x)", where, a.Kind, err, p.body), "C11"}
				}
				pc.Write([]byte{0xe0, 0})
				time.Sleep(5 * time.Millisecond)
				pc.Close()
				time.Sleep(20 * time.Millisecond)
				cl.Close()
				time.Sleep(20 * time.Millisecond)
				m.closed = true
				skipBarrier[a.C] = true
			} else if strings.HasPrefix(a.Kind, "abort") {
				// the client gives up right after its CONNECT: it closes without reading, the CONNACK cannot be written
				select {
				case <-werr:
				case <-time.After(r.tmo):
				}
				cl.Close()
				time.Sleep(30 * time.Millisecond)
				m.closed = true
				skipBarrier[a.C] = true
			} else {
				// a refused connection: optional CONNACK, then the broker closes; further packets have no effect
				for {
					p, err := readPkt(cl, r.tmo)
					if err != nil {
						if err != io.EOF && !strings.Contains(err.Error(), "closed pipe") {
							return &brokerMismatch{fmt.Sprintf("%s(%s): connection not closed by the broker: %v", where, a.Kind, err), "C11"}
						}
						break
					}
					got[a.C] = append(got[a.C], decodeRaw(p))
				}
				select {
				case <-werr:
				case <-time.After(r.tmo):
				}
				if a.Follow != "" {
					cl.SetWriteDeadline(time.Now().Add(100 * time.Millisecond))
					cl.Write(pkt(0x82, append([]byte{0, 9}, append(lp([]byte("#")), 1)...)))
					cl.Write(pkt(0x31, append(lp([]byte(a.Follow)), brokerPayload("z")...)))
				}
				cl.Close()
				m.closed = true
				skipBarrier[a.C] = true
			}
		case "subscribe":
			body := []byte{byte(a.ID >> 8), byte(a.ID)}
			for _, rq := range a.Req {
				body = append(append(body, lp([]byte(wireTopic(rq.F)))...), byte(rq.Q))
			}
			if _, err := r.conns[a.C].c.Write(pkt(0x82, body)); err != nil {
				return &brokerMismatch{where + ": write: " + err.Error(), "C05"}
			}
		case "churn":
			// 3 x 6 KB on a topic nobody is subscribed to: the client's 16 KiB incoming ring goes round once
			for k := 0; k < 3; k++ {
				if _, err := r.conns[a.C].c.Write(pkt(0x30, append(lp([]byte("zz/churn")), brokerPayload("B")...))); err != nil {
					return &brokerMismatch{where + ": write: " + err.Error(), "C05"}
				}
			}
		case "unsubscribe":
			body := []byte{byte(a.ID >> 8), byte(a.ID)}
			for _, f := range a.Fs {
				body = append(body, lp([]byte(wireTopic(f)))...)
			}
			if a.Kind == "wide" {
				// 900 filters nobody holds in front of the real ones
				wide := []byte{byte(a.ID >> 8), byte(a.ID)}
				for k := 0; k < 900; k++ {
					wide = append(wide, lp([]byte(fmt.Sprintf("z%03x", k)))...)
				}
				body = append(wide, body[2:]...)
			}
			if _, err := r.conns[a.C].c.Write(pkt(0xa2, body)); err != nil {
				return &brokerMismatch{where + ": write: " + err.Error(), "C05"}
			}
			if a.Kind == "wide" {
				// wait for the UNSUBACK and nothing else: the next stimulus follows at once
				m := r.conns[a.C]
				deadline := time.Now().Add(r.tmo)
				found := false
				for !found && time.Now().Before(deadline) {
					m.mu.Lock()
					for i, p := range m.rx {
						if p.first == 0xb0 {
							for _, q := range m.rx[:i+1] {
								got[a.C] = append(got[a.C], decodeRaw(q))
							}
							m.rx = append([]rawPkt(nil), m.rx[i+1:]...)
							found = true
							break
						}
					}
					m.mu.Unlock()
					if !found {
						select {
						case <-m.sig:
						case <-time.After(time.Millisecond):
						}
					}
				}
				if !found {
					return &brokerMismatch{where + ": no UNSUBACK within " + r.tmo.String(), "C07"}
				}
				skipBarrier[a.C] = true
			}
		case "publish":
			first := byte(0x30) | byte(a.Q)<<1
			if a.R {
				first |= 1
			}
			if a.Dup {
				first |= 8
			}
			body := lp([]byte(wireTopic(a.T)))
			if a.Q > 0 {
				body = append(body, byte(a.ID>>8), byte(a.ID))
			}
			body = append(body, brokerPayload(a.Pl)...)
			// a packet larger than the pipe's rendezvous needs a concurrent reader on the broker side: it has one
			if _, err := r.conns[a.C].c.Write(pkt(first, body)); err != nil {
				return &brokerMismatch{where + ": write: " + err.Error(), "C05"}
			}
		case "pubrel":
			if _, err := r.conns[a.C].c.Write([]byte{0x62, 2, byte(a.ID >> 8), byte(a.ID)}); err != nil {
				return &brokerMismatch{where + ": write: " + err.Error(), "C05"}
			}
		case "end":
			m := r.conns[a.C]
			switch a.How {
			case "disconnect":
				m.c.Write([]byte{0xe0, 0})
			case "disconnect-eof":
				// DISCONNECT and the end of the stream reach the broker in one Read
				if m.srv != nil {
					atomic.StoreInt32(&m.srv.join, 1)
				}
				m.c.Write([]byte{0xe0, 0})
				m.c.Close()
			case "pings-disconnect-eof":
				// a backlog of requests that need an answer, the DISCONNECT and the end of the stream: the broker's receiver
				// sees the end (and closes the outgoing buffer) while the processor is still busy with the backlog
				b := bytes.Repeat([]byte{0xc0, 0}, 6000)
				m.c.Write(append(b, 0xe0, 0))
				m.c.Close()
			case "bad":
				m.c.Write([]byte{0x30, 0x01, 0x00}) // PUBLISH too short for its topic: protocol error
			default:
				m.c.Close()
			}
			select {
			case <-bev.stopCh(m.svc):
			case <-time.After(r.tmo):
				return &brokerMismatch{fmt.Sprintf("%s(%s): teardown of %s did not finish within %v", where, a.How, a.C, r.tmo), "C16"}
			}
			m.c.Close()
			m.closed = true
			skipBarrier[a.C] = true
		case "subrec", "suback":
			m := r.conns[a.C]
			var b []byte
			switch {
			case a.A == "subrec":
				if len(m.q2ids) == 0 {
					return &brokerMismatch{where + ": the specification expects an unanswered QoS 2 delivery on " + a.C + ", none was received", "C12"}
				}
				m.relID = m.q2ids[0]
				m.q2ids = m.q2ids[1:]
				b = []byte{0x50, 2, byte(m.relID >> 8), byte(m.relID)}
			case a.Ty == "PUBACK":
				id := 999
				if len(m.q1ids) > 0 {
					id, m.q1ids = m.q1ids[0], m.q1ids[1:]
				}
				b = []byte{0x40, 2, byte(id >> 8), byte(id)}
			default:
				id := m.relID
				if id == 0 {
					id = 998
				}
				b = []byte{0x70, 2, byte(id >> 8), byte(id)}
			}
			if _, err := m.c.Write(b); err != nil {
				return &brokerMismatch{where + ": write: " + err.Error(), "C05"}
			}
		case "stray":
			m := r.conns[a.C]
			first := map[string]byte{"PUBACK": 0x40, "PUBREC": 0x50, "PUBCOMP": 0x70, "SUBACK": 0x90, "UNSUBACK": 0xb0}[a.Ty]
			b := []byte{first, 2, byte(a.ID >> 8), byte(a.ID)}
			if a.Ty == "SUBACK" {
				b = []byte{first, 3, byte(a.ID >> 8), byte(a.ID), 1}
			}
			if _, err := m.c.Write(b); err != nil {
				return &brokerMismatch{where + ": write: " + err.Error(), "C05"}
			}
		case "breakout":
			m := r.conns[a.C]
			if m.srv != nil {
				atomic.StoreInt32(&m.srv.wbroken, 1)
			}
			m.broken = true
			skipBarrier[a.C] = true
		case "apipublish":
			msg := message.NewPublishMessage()
			msg.SetTopic([]byte(wireTopic(a.T)))
			msg.SetPayload(brokerPayload(a.Pl))
			msg.SetQoS(byte(a.Q))
			msg.SetRetain(a.R)
			if err := r.svr.Publish(msg); err != nil {
				return &brokerMismatch{where + ": Server.Publish: " + err.Error(), "C01"}
			}
			// the call has returned: the application uses its message object and its payload buffer for something else
			// (what the broker keeps of it - a retained message - must be the broker's own)
			if pl := msg.Payload(); len(pl) > 0 {
				for i := range pl {
					pl[i] = 'Z'
				}
			}
			msg.SetTopic([]byte("zz/reused"))
		case "apisubscribe":
			l := r.locals[a.L]
			if l == nil {
				l = &localSub{name: a.L}
				ll := l
				l.fn = func(msg *message.PublishMessage) error {
					ll.mu.Lock()
					ll.got = append(ll.got, bPkt{Ty: "PUBLISH", T: specTopic(string(msg.Topic())), Q: int(msg.QoS()), R: msg.Retain(), Pl: tagOf(msg.Payload()), ID: 0})
					ll.mu.Unlock()
					// an in-process subscriber may report an error for a live message (its sink is full): that is its own
					// business and changes nothing for the other subscribers of the message. (Not while Server.Subscribe
					// hands over the retained messages: there an error ends the call.)
					if atomic.LoadInt32(&ll.armed) == 1 {
						return fmt.Errorf("in-process subscriber %s: sink full", ll.name)
					}
					return nil
				}
				r.locals[a.L] = l
			}
			atomic.StoreInt32(&l.armed, 0)
			if a.Kind == "failing" {
				atomic.StoreInt32(&l.armed, 1) // the callback fails on the retained message too
			}
			err := r.svr.Subscribe(a.F, byte(a.Q), &l.fn)
			atomic.StoreInt32(&l.armed, 1)
			if a.Kind == "failing" {
				if err == nil {
					return &brokerMismatch{where + ": the subscriber's callback reported an error for the retained message, Server.Subscribe returned nil", "C08"}
				}
				err = nil
			}
			if err != nil {
				return &brokerMismatch{where + ": Server.Subscribe: " + err.Error(), "C01"}
			}
		case "apiunsubscribe":
			if l := r.locals[a.L]; l != nil {
				if err := r.svr.Unsubscribe(a.F, &l.fn); err != nil {
					return &brokerMismatch{where + ": Server.Unsubscribe: " + err.Error(), "C01"}
				}
			}
		default:
			return &brokerMismatch{"unknown action " + a.A, "INFRA"}
		}
		res.Steps++
		// barriers: the stimulated connection first (its PINGRESP proves the stimulus was processed and
		// every delivery it caused sits in the receivers' rings), then every other connection
		var order []string
		if m, ok := r.conns[a.C]; ok && !m.closed && !skipBarrier[a.C] && !m.broken {
			order = append(order, a.C)
		}
		var others []string
		for name, m := range r.conns {
			if name != a.C && !m.closed && !m.broken {
				others = append(others, name)
			}
		}
		sort.Strings(others)
		order = append(order, others...)
		for _, name := range order {
			ps, err := r.barrier(r.conns[name])
			if err != nil {
				exp := st.Out[name]
				tag := "C05"
				if name == a.C {
					tag = tagFor(a, exp, ps, name)
				}
				return &brokerMismatch{fmt.Sprintf("%s on %s: connection %s does not answer PINGREQ any more (%v) after %s; specification: %s",
					where, a.C, name, err, showPkts(append(got[name], ps...)), showGroups(exp)), tag}
			}
			got[name] = append(got[name], ps...)
		}
		for name, l := range r.locals {
			l.mu.Lock()
			got[name] = append(got[name], l.got...)
			l.got = nil
			l.mu.Unlock()
		}
		if brokerOrderOnly {
			// the messages one publisher sends on one topic at one QoS level reach a subscriber in the order they were
			// published: the specification hands them on in that order (Release), so every message a connection receives
			// must have been published later than the one it received before; what is missing or extra is not looked at
			var names []string
			for name := range got {
				names = append(names, name)
			}
			sort.Strings(names)
			for _, name := range names {
				for _, pk := range got[name] {
					if pk.Ty != "PUBLISH" {
						continue
					}
					key := pk.T + " " + pk.Pl
					if nrecv[name] == nil {
						nrecv[name] = map[string]int{}
						lastStep[name] = -1
					}
					k := nrecv[name][key]
					nrecv[name][key]++
					if k >= len(pubSteps[key]) {
						continue
					}
					if ps := pubSteps[key][k]; ps < lastStep[name] {
						return &brokerMismatch{fmt.Sprintf("%s %s: connection %s receives %s, published at step %d, after a message published at step %d",
							where, actDesc(a), name, showPkts([]bPkt{pk}), ps, lastStep[name]), "C17"}
					} else {
						lastStep[name] = ps
					}
				}
			}
			continue
		}
		if pipedStep {
			// compared together with the next step
			carryGot, carryExp = got, st.Out
			continue
		}
		if carryExp != nil {
			merged := map[string][][]bPkt{}
			for name, e := range carryExp {
				merged[name] = append(merged[name], e...)
			}
			for name, e := range st.Out {
				merged[name] = append(merged[name], e...)
			}
			st.Out = merged
			for name, g := range carryGot {
				got[name] = append(append([]bPkt(nil), g...), got[name]...)
			}
			carryGot, carryExp = nil, nil
		}
		// projection of the session store
		if n := r.sp.Count(); n != st.Nsess {
			// what is stored after a step is the session property's observable (after a refused CONNECT: C11's)
			tag := "C10"
			if a.A == "refuse" && !strings.HasPrefix(a.Kind, "abort") {
				tag = "C11"
			}
			mm := &brokerMismatch{fmt.Sprintf("%s %s: the session store holds %d sessions, specification %d", where, actDesc(a), n, st.Nsess), tag}
			if brokerOwn == nil || brokerOwn[tag] {
				return mm
			}
			if foreign == nil {
				foreign = mm
			}
		}
		// compare
		var names []string
		for name := range st.Out {
			names = append(names, name)
		}
		sort.Strings(names)
		for _, name := range names {
			if m := r.conns[name]; m != nil && m.broken {
				continue
			}
			exp := st.Out[name]
			g := got[name]
			if _, isLocal := r.locals[name]; isLocal || strings.HasPrefix(name, "L") {
				// in-process deliveries carry no packet identifier
				// and the retain flag of a live forward is not specified for them (deliberate: the
				// library hands the publisher's message object to in-process callbacks unchanged)
				for gi := range exp {
					for pi := range exp[gi] {
						exp[gi][pi].ID = 0
					}
				}
				live := false
				for gi := range exp {
					for pi := range exp[gi] {
						if !exp[gi][pi].R {
							live = true
						}
					}
				}
				if live {
					for gi := range g {
						g[gi].R = false
					}
				}
			}
			if m := r.conns[name]; m != nil {
				for _, pk := range g {
					if pk.Ty == "PUBLISH" && pk.Q == 1 {
						m.q1ids = append(m.q1ids, pk.ID)
					}
					if pk.Ty == "PUBLISH" && pk.Q == 2 {
						m.q2ids = append(m.q2ids, pk.ID)
					}
					if pk.Ty == "PUBREL" && a.A == "subrec" && name == a.C && pk.ID != m.relID {
						return &brokerMismatch{fmt.Sprintf("%s: PUBREL carries identifier %d, the PUBREC it answers had %d", where, pk.ID, m.relID), "C12"}
					}
				}
			}
			equal := groupsEqual(exp, g)
			if !equal && name == a.C && (a.A == "publish" || a.A == "pubrel" || a.A == "subscribe") {
				// a publisher subscribed to its own topic: no property says where the acknowledgement of its packet stands
				// among the deliveries the same packet causes on its own connection (the specification lists the
				// acknowledgement first for PUBACK, last for PUBCOMP): both are compared as streams of their own
				// (the same for a SUBACK and the retained messages its request brings: 3.8.4 lets the server start sending
				// them before the SUBACK, and no property orders them)
				isAck := func(p bPkt) bool { return p.Ty == "PUBACK" || p.Ty == "PUBCOMP" || p.Ty == "SUBACK" }
				var expA, expD [][]bPkt
				var gotA, gotD []bPkt
				for _, grp := range exp {
					var ga, gd []bPkt
					for _, p := range grp {
						if isAck(p) {
							ga = append(ga, p)
						} else {
							gd = append(gd, p)
						}
					}
					if len(ga) > 0 {
						expA = append(expA, ga)
					}
					if len(gd) > 0 {
						expD = append(expD, gd)
					}
				}
				for _, p := range g {
					if isAck(p) {
						gotA = append(gotA, p)
					} else {
						gotD = append(gotD, p)
					}
				}
				equal = groupsEqual(expA, gotA) && groupsEqual(expD, gotD)
			}
			if !equal {
				return &brokerMismatch{fmt.Sprintf("%s %s: connection %s received %s, specification %s", where, actDesc(a), name, showPkts(g), showGroups(exp)),
					tagFor(a, exp, g, name)}
			}
		}
	}
	return nil
}

func actDesc(a bAct) string {
	switch a.A {
	case "connect":
		w := ""
		if a.Will.On {
			w = fmt.Sprintf(" will(%s,%s,q%d,r%v)", a.Will.T, a.Will.Pl, a.Will.Q, a.Will.R)
		}
		return fmt.Sprintf("(%s id=%s clean=%v%s)", a.C, a.K, a.Clean, w)
	case "refuse":
		return fmt.Sprintf("(%s %s)", a.C, a.Kind)
	case "subscribe":
		var fs []string
		for _, r := range a.Req {
			fs = append(fs, fmt.Sprintf("%s@%d", r.F, r.Q))
		}
		return fmt.Sprintf("(%s %s)", a.C, strings.Join(fs, ","))
	case "unsubscribe":
		return fmt.Sprintf("(%s %s)", a.C, strings.Join(a.Fs, ","))
	case "publish":
		return fmt.Sprintf("(%s %s q%d r%v pl=%q id=%d dup=%v)", a.C, a.T, a.Q, a.R, a.Pl, a.ID, a.Dup)
	case "pubrel":
		return fmt.Sprintf("(%s id=%d)", a.C, a.ID)
	case "stray":
		return fmt.Sprintf("(%s %s id=%d)", a.C, a.Ty, a.ID)
	case "end":
		return fmt.Sprintf("(%s %s)", a.C, a.How)
	case "apipublish":
		return fmt.Sprintf("(%s q%d r%v pl=%q)", a.T, a.Q, a.R, a.Pl)
	case "apisubscribe", "apiunsubscribe":
		return fmt.Sprintf("(%s %s@%d)", a.L, a.F, a.Q)
	}
	return ""
}

// brokerreplay -auth A -maxqos N: every input line is one behaviour (list of steps)
func cmdBrokerReplay(a Args) {
	res := newResult()
	maxKeptMismatches = 60
	auth := a.str("auth", "mockSuccess")
	maxqos := a.num("maxqos", 2)
	fragMode = a.num("frag", 0)
	brokerOrderOnly = a.str("orderonly", "") != ""
	pipeMode = a.str("pipe", "") != ""
	if o := a.str("own", ""); o != "" {
		brokerOwn = map[string]bool{}
		for _, t := range strings.Split(o, ",") {
			brokerOwn[t] = true
		}
	}
	retry := a.num("retry", 1)
	lifeOpen(a.str("life", ""), a.num("lifeevery", 1))
	err := readLines(a, func(line []byte) error {
		var steps []bStep
		if err := json.Unmarshal(line, &steps); err != nil {
			return err
		}
		// the verdict is clear after many diverging behaviours (each may cost several time-outs): skip the rest of the shard
		if res.Counts["ownmm"] >= 40 || res.Counts["known:"] >= 1500 {
			res.Counts["skipped_after_violation"]++
			return nil
		}
		res.Evaluations++
		m := runBehaviour(steps, auth, maxqos, res)
		// a barrier that timed out is a liveness observation: it must reproduce
		for k := 0; m != nil && k < retry && (strings.Contains(m.what, "does not answer") || strings.Contains(m.what, "did not finish")); k++ {
			m2 := runBehaviour(steps, auth, maxqos, newResult())
			if m2 == nil {
				res.Notes = append(res.Notes, "unreproduced: "+m.what)
				res.Counts["unreproduced"]++
				m = nil
			} else {
				m = m2
			}
		}
		if m != nil {
			if brokerOwn == nil || brokerOwn[m.tag] {
				res.Counts["ownmm"]++
			}
			var acts []string
			for _, s := range steps {
				acts = append(acts, s.A.A+actDesc(s.A))
			}
			res.mismatch(Mismatch{What: m.what, Tag: m.tag, Replay: map[string]interface{}{"behaviour": acts, "steps": steps}})
		}
		if len(res.Samples) < 2 && len(steps) >= 3 {
			var acts []string
			for _, s := range steps {
				acts = append(acts, s.A.A+actDesc(s.A))
			}
			res.Samples = append(res.Samples, acts)
		}
		return nil
	})
	if err != nil {
		fatal("brokerreplay: %v", err)
	}
	res.Counts["life_recordings"], res.Counts["life_events"] = lifeRec.close()
	res.emit()
}

func init() { commands["brokerreplay"] = cmdBrokerReplay }
