package main

import (
	"encoding/json"
	"fmt"
	"math/rand"
	"os"
	"strings"
	"sync"

	"github.com/mdzio/go-mqtt/message"
	"github.com/mdzio/go-mqtt/topics"
)

// ---------------------------------------------------------------- C06 (B): linearizability of the topic store

type linEv struct {
	Ev  string         `json:"ev"`
	ID  int            `json:"id"`
	Op  string         `json:"op"`
	W   string         `json:"w"`
	F   []string       `json:"f"`
	Q   int            `json:"q"`
	Pl  string         `json:"pl"`
	Err bool           `json:"err"`
	Res map[string]int `json:"res"`
}

// topicslin: goroutines hammer one real store with random calls over a small vocabulary; every call is
// logged before and after (the log adds no ordering of its own between call and return).
func cmdTopicsLin(a Args) {
	seed := int64(a.num("seed", 1))
	ntr := a.num("traces", 40)
	ngo := a.num("goroutines", 4)
	ncalls := a.num("calls", 12)
	out, err := os.Create(a.str("out", "trace.ndjson"))
	if err != nil {
		fatal("%v", err)
	}
	defer out.Close()
	enc := json.NewEncoder(out)
	res := newResult()
	filters := [][]string{{"a", "b"}, {"a", "+"}, {"a", "#"}, {"#"}, {"a"}}
	names := [][]string{{"a", "b"}, {"a"}, {"c"}}
	var mu sync.Mutex
	var log []linEv
	nid := 0
	emit := func(e linEv) {
		mu.Lock()
		log = append(log, e)
		mu.Unlock()
	}
	newID := func() int {
		mu.Lock()
		nid++
		n := nid
		mu.Unlock()
		return n
	}
	for tr := 0; tr < ntr; tr++ {
		mt := topics.NewMemProvider()
		log = nil
		var wg sync.WaitGroup
		for g := 0; g < ngo; g++ {
			wg.Add(1)
			go func(g int, r *rand.Rand) {
				defer wg.Done()
				who := fmt.Sprintf("s%d", g)
				for i := 0; i < ncalls; i++ {
					id := newID()
					switch r.Intn(6) {
					case 0, 1:
						f := filters[r.Intn(len(filters))]
						q := r.Intn(3)
						emit(linEv{Ev: "call", ID: id, Op: "sub", W: who, F: f, Q: q})
						_, err := mt.Subscribe([]byte(strings.Join(f, "/")), byte(q), who)
						emit(linEv{Ev: "ret", ID: id, Op: "sub", Err: err != nil})
					case 2:
						f := filters[r.Intn(len(filters))]
						emit(linEv{Ev: "call", ID: id, Op: "unsub", W: who, F: f})
						err := mt.Unsubscribe([]byte(strings.Join(f, "/")), who)
						emit(linEv{Ev: "ret", ID: id, Op: "unsub", Err: err != nil})
					case 3:
						t := names[r.Intn(len(names))]
						q := r.Intn(3)
						emit(linEv{Ev: "call", ID: id, Op: "match", W: who, F: t, Q: q})
						var subs []interface{}
						var qoss []byte
						err := mt.Subscribers([]byte(strings.Join(t, "/")), byte(q), &subs, &qoss)
						rs := map[string]int{}
						for k := range subs {
							rs[fmt.Sprintf("%s_%d", subs[k].(string), qoss[k])]++
						}
						emit(linEv{Ev: "ret", ID: id, Op: "match", Err: err != nil, Res: rs})
					case 4:
						t := names[r.Intn(len(names))]
						pl := []string{"x", "yy", ""}[r.Intn(3)]
						q := r.Intn(2)
						emit(linEv{Ev: "call", ID: id, Op: "retain", W: who, F: t, Q: q, Pl: pl})
						m := message.NewPublishMessage()
						m.SetTopic([]byte(strings.Join(t, "/")))
						m.SetPayload(payloadOf(pl))
						m.SetQoS(byte(q))
						m.SetRetain(true)
						mt.Retain(m)
						emit(linEv{Ev: "ret", ID: id, Op: "retain"})
					default:
						f := filters[r.Intn(len(filters))]
						emit(linEv{Ev: "call", ID: id, Op: "retained", W: who, F: f})
						var msgs []*message.PublishMessage
						mt.Retained([]byte(strings.Join(f, "/")), &msgs)
						rs := map[string]int{}
						for _, x := range msgs {
							tag := "?"
							for _, cand := range []string{"x", "yy"} {
								if string(x.Payload()) == string(payloadOf(cand)) {
									tag = cand
								}
							}
							rs[fmt.Sprintf("%s_%d", tag, x.QoS())]++
						}
						emit(linEv{Ev: "ret", ID: id, Op: "retained", Res: rs})
					}
				}
			}(g, rand.New(rand.NewSource(seed*1000+int64(tr*10+g))))
		}
		wg.Wait()
		enc.Encode(linEv{Ev: "reset", F: []string{}, Res: map[string]int{}})
		for _, e := range log {
			if e.F == nil {
				e.F = []string{}
			}
			if e.Res == nil {
				e.Res = map[string]int{}
			}
			enc.Encode(e)
			res.Steps++
		}
		res.Evaluations++
	}
	res.emit()
}

func init() { commands["topicslin"] = cmdTopicsLin }
