package main

import (
	"bytes"
	"encoding/json"
	"fmt"
	"sort"
	"strings"

	"github.com/mdzio/go-mqtt/message"
	"github.com/mdzio/go-mqtt/topics"
)

// ---------------------------------------------------------------- subscriber identities
// "p<k>" is a pointer identity, "s:<x>" a string, "i:<n>" an int: the kinds topics.equal handles.

type whoTable struct {
	ptrs map[string]*int
}

func (w *whoTable) get(name string) interface{} {
	if strings.HasPrefix(name, "s:") {
		return name[2:]
	}
	if strings.HasPrefix(name, "i:") {
		var n int
		fmt.Sscanf(name[2:], "%d", &n)
		return n
	}
	if w.ptrs == nil {
		w.ptrs = map[string]*int{}
	}
	p, ok := w.ptrs[name]
	if !ok {
		p = new(int)
		w.ptrs[name] = p
	}
	return p
}

func (w *whoTable) name(v interface{}) string {
	switch x := v.(type) {
	case string:
		return "s:" + x
	case int:
		return fmt.Sprintf("i:%d", x)
	case *int:
		for k, p := range w.ptrs {
			if p == x {
				return k
			}
		}
	}
	return fmt.Sprintf("?%v", v)
}

// payload tags of the specification are expanded to byte strings of different lengths, so
// that a retained update is sometimes shorter and sometimes longer than what it replaces.
func payloadOf(tag string) []byte {
	if tag == "" {
		return nil
	}
	n := 3 + 17*len(tag)*len(tag)
	b := make([]byte, n)
	for i := range b {
		b[i] = tag[i%len(tag)] ^ byte(i*7)
	}
	copy(b, tag)
	return b
}

// ---------------------------------------------------------------- Topics model adapter

type topicsModel struct {
	mt   *topics.MemTopics
	who  whoTable
	subs []interface{}
	qoss []byte
	held []heldMsg
}

type tAct struct {
	A  string `json:"a"`
	W  string `json:"w"`
	F  string `json:"f"`
	T  string `json:"t"`
	Q  int    `json:"q"`
	Pl string `json:"pl"`
}
type tRes struct {
	Ok bool `json:"ok"`
	Q  int  `json:"q"`
}
type tBagEntry struct {
	W string `json:"w"`
	F string `json:"f"`
	Q int    `json:"q"`
}
type tProbe struct {
	Sub []struct {
		T   string      `json:"t"`
		Pq  int         `json:"pq"`
		Bag []tBagEntry `json:"bag"`
	} `json:"sub"`
	Ret []struct {
		F   string `json:"f"`
		Set []struct {
			T  string `json:"t"`
			Pl string `json:"pl"`
			Q  int    `json:"q"`
		} `json:"set"`
	} `json:"ret"`
}

func (m *topicsModel) Reset() {
	m.mt = topics.NewMemProvider()
	m.held = nil
}

// heldMsg: a message object handed out by a retained look-up, with the bytes it encoded to at that moment. The store
// hands its messages out by reference (the broker encodes them later, possibly while the topic is being updated), so
// whatever happens to the store afterwards, the object must keep encoding to the same packet.
type heldMsg struct {
	msg  *message.PublishMessage
	snap []byte
	desc string
}

func encodeOf(x *message.PublishMessage) []byte {
	b := make([]byte, x.Len())
	n, err := x.Encode(b)
	if err != nil {
		return []byte("error: " + err.Error())
	}
	return b[:n]
}

func (m *topicsModel) checkHeld() string {
	for _, h := range m.held {
		if now := encodeOf(h.msg); !bytes.Equal(now, h.snap) {
			return fmt.Sprintf("a message handed out earlier by a retained look-up (%s, %d bytes) now encodes to other bytes (%d bytes): the stored message was rewritten in place by a later update of the store", h.desc, len(h.snap), len(now))
		}
	}
	if len(m.held) > 48 {
		m.held = m.held[len(m.held)-24:]
	}
	return ""
}

func (m *topicsModel) Do(araw, rraw json.RawMessage, check bool) string {
	var a tAct
	var r tRes
	json.Unmarshal(araw, &a)
	json.Unmarshal(rraw, &r)
	switch a.A {
	case "sub":
		f := []byte(a.F)
		q, err := m.mt.Subscribe(f, byte(a.Q), m.who.get(a.W))
		for i := range f { // the caller's buffer is reused for the next packet
			f[i] = '#'
		}
		if !check {
			return ""
		}
		if (err == nil) != r.Ok {
			return fmt.Sprintf("Subscribe(%s,%q,%d): error=%v, specification ok=%v", a.W, a.F, a.Q, err, r.Ok)
		}
		if int(q) != r.Q {
			return fmt.Sprintf("Subscribe(%s,%q,%d): granted %d, specification %d", a.W, a.F, a.Q, q, r.Q)
		}
	case "unsub":
		err := m.mt.Unsubscribe([]byte(a.F), m.who.get(a.W))
		if check && (err == nil) != r.Ok {
			return fmt.Sprintf("Unsubscribe(%s,%q): error=%v, specification ok=%v", a.W, a.F, err, r.Ok)
		}
	case "unsuball":
		m.mt.Unsubscribe([]byte(a.F), nil)
	case "retain":
		msg := message.NewPublishMessage()
		topic := []byte(a.T)
		pl := payloadOf(a.Pl)
		msg.SetTopic(topic)
		msg.SetPayload(pl)
		msg.SetQoS(byte(a.Q))
		msg.SetRetain(true)
		if a.Q > 0 {
			msg.SetPacketID(77)
		}
		err := m.mt.Retain(msg)
		// the store must hold a copy: scribble over everything the caller handed in
		for i := range topic {
			topic[i] = '!'
		}
		for i := range pl {
			pl[i] = 0xEE
		}
		if check && err != nil && a.Pl != "" {
			return fmt.Sprintf("Retain(%q,%q): error %v", a.T, a.Pl, err)
		}
	default:
		return "unknown action " + a.A
	}
	return ""
}

func (m *topicsModel) Check(praw json.RawMessage) string {
	var p tProbe
	if err := json.Unmarshal(praw, &p); err != nil {
		return "bad probe: " + err.Error()
	}
	if d := m.checkHeld(); d != "" {
		return d
	}
	for _, s := range p.Sub {
		err := m.mt.Subscribers([]byte(s.T), byte(s.Pq), &m.subs, &m.qoss)
		if err != nil {
			return fmt.Sprintf("Subscribers(%q,%d): error %v", s.T, s.Pq, err)
		}
		var got, exp []string
		for i, sub := range m.subs {
			got = append(got, fmt.Sprintf("%s@%d", m.who.name(sub), m.qoss[i]))
		}
		for _, e := range s.Bag {
			exp = append(exp, fmt.Sprintf("%s@%d", e.W, e.Q))
		}
		sort.Strings(got)
		sort.Strings(exp)
		if strings.Join(got, " ") != strings.Join(exp, " ") {
			return fmt.Sprintf("Subscribers(%q, qos %d) = [%s], specification [%s]", s.T, s.Pq, strings.Join(got, " "), strings.Join(exp, " "))
		}
	}
	for _, r := range p.Ret {
		var msgs []*message.PublishMessage
		if err := m.mt.Retained([]byte(r.F), &msgs); err != nil {
			return fmt.Sprintf("Retained(%q): error %v", r.F, err)
		}
		var got, exp []string
		for _, x := range msgs {
			tag := "?"
			for _, e := range r.Set {
				if bytes.Equal(x.Payload(), payloadOf(e.Pl)) {
					tag = e.Pl
				}
			}
			if tag == "?" {
				tag = fmt.Sprintf("?len%d", len(x.Payload()))
			}
			got = append(got, fmt.Sprintf("%s=%s@%d r%v", x.Topic(), tag, x.QoS(), x.Retain()))
			m.held = append(m.held, heldMsg{msg: x, snap: encodeOf(x), desc: fmt.Sprintf("%s=%s@%d", x.Topic(), tag, x.QoS())})
		}
		for _, e := range r.Set {
			exp = append(exp, fmt.Sprintf("%s=%s@%d r%v", e.T, e.Pl, e.Q, true))
		}
		sort.Strings(got)
		sort.Strings(exp)
		if strings.Join(got, " ") != strings.Join(exp, " ") {
			return fmt.Sprintf("Retained(%q) = [%s], specification [%s]", r.F, strings.Join(got, " "), strings.Join(exp, " "))
		}
	}
	return ""
}

func init() {
	models["topics"] = func(a Args) Model {
		topics.MaxQosAllowed = byte(a.num("maxqos", 2))
		return &topicsModel{}
	}
	commands["topicsrel"] = cmdTopicsRel
	commands["hist"] = cmdHist
}

// ---------------------------------------------------------------- complete relation (C06 part 1)

type relRow struct {
	F     []string   `json:"f"`
	Valid bool       `json:"valid"`
	M     [][]string `json:"m"`
	Mdev  [][]string `json:"mdev"`
	Cls   bool       `json:"cls"`
	Names [][]string `json:"names"`
}

func hasEmpty(x []string) bool {
	for _, l := range x {
		if l == "" {
			return true
		}
	}
	return false
}

// topicsrel: for every filter row, a fresh store holding just that filter is asked for every
// name; and for every (filter, name) pair a fresh store retaining just that name is asked
// for the filter. Disagreements that coincide with the named deviation DevEmptyLevel on an
// input that has an empty level are classified known=empty-level.
func cmdTopicsRel(a Args) {
	res := newResult()
	maxKeptMismatches = a.num("keep", 40)
	var names [][]string
	var rows []relRow
	readLines(a, func(line []byte) error {
		var r relRow
		if err := json.Unmarshal(line, &r); err != nil {
			return err
		}
		if r.Names != nil {
			names = r.Names
		} else {
			rows = append(rows, r)
		}
		return nil
	})
	if names == nil {
		fatal("topicsrel: no names record")
	}
	set := func(xs [][]string) map[string]bool {
		m := map[string]bool{}
		for _, x := range xs {
			m[strings.Join(x, "/")] = true
		}
		return m
	}
	who := new(int)
	var subs []interface{}
	var qoss []byte
	for _, row := range rows {
		f := strings.Join(row.F, "/")
		m, mdev := set(row.M), set(row.Mdev)
		mt := topics.NewMemProvider()
		_, err := mt.Subscribe([]byte(f), 1, who)
		res.Evaluations++
		if (err == nil) != row.Valid {
			res.mismatch(Mismatch{What: fmt.Sprintf("Subscribe(%q) error=%v but specification valid=%v", f, err, row.Valid),
				Replay: map[string]interface{}{"filter": f}})
			if err != nil {
				continue
			}
		}
		for _, nm := range names {
			t := strings.Join(nm, "/")
			res.Evaluations++
			res.Steps++
			// subscriber direction
			e := mt.Subscribers([]byte(t), 2, &subs, &qoss)
			got := e == nil && len(subs) == 1
			if e == nil && len(subs) > 1 {
				res.mismatch(Mismatch{What: fmt.Sprintf("filter %q name %q: %d entries for one subscription", f, t, len(subs)), Replay: map[string]interface{}{"filter": f, "name": t}})
				continue
			}
			if got && qoss[0] != 1 {
				res.mismatch(Mismatch{What: fmt.Sprintf("filter %q name %q: qos %d, specification 1", f, t, qoss[0]), Replay: map[string]interface{}{"filter": f, "name": t}})
			}
			if got != m[t] {
				mm := Mismatch{What: fmt.Sprintf("subscription %q, name %q: matched=%v, specification %v", f, t, got, m[t]),
					Replay: map[string]interface{}{"filter": f, "name": t, "direction": "subscribers"}}
				if (row.Cls || hasEmpty(nm)) && got == mdev[t] {
					mm.Known = "empty-level"
				}
				res.mismatch(mm)
			}
			if !row.Valid {
				continue
			}
			// retained direction: fresh store with exactly this name retained
			rt := topics.NewMemProvider()
			msg := message.NewPublishMessage()
			msg.SetTopic([]byte(t))
			msg.SetPayload([]byte("r"))
			msg.SetRetain(true)
			if err := rt.Retain(msg); err != nil {
				res.mismatch(Mismatch{What: fmt.Sprintf("Retain(%q): %v", t, err)})
				continue
			}
			var msgs []*message.PublishMessage
			e = rt.Retained([]byte(f), &msgs)
			gotr := e == nil && len(msgs) == 1
			if gotr != m[t] {
				mm := Mismatch{What: fmt.Sprintf("retained %q looked up with %q: returned=%v, specification %v", t, f, gotr, m[t]),
					Replay: map[string]interface{}{"filter": f, "name": t, "direction": "retained"}}
				if (row.Cls || hasEmpty(nm)) && gotr == mdev[t] {
					mm.Known = "empty-level"
				}
				res.mismatch(mm)
			}
		}
		if len(res.Samples) < 3 && row.Valid && len(row.M) > 1 {
			res.Samples = append(res.Samples, map[string]interface{}{"filter": f, "matches": row.M})
		}
	}
	res.Distinct = len(rows) * len(names)
	res.emit()
}

// ---------------------------------------------------------------- histories printed by TLC (Hist = TRUE)

type histStep struct {
	A     json.RawMessage `json:"a"`
	R     json.RawMessage `json:"r"`
	Probe json.RawMessage `json:"probe"`
}

// hist -model M: every input line is one behaviour: a list of {a, r, probe}; every step is checked.
func cmdHist(a Args) {
	mk, ok := models[a.str("model", "")]
	if !ok {
		fatal("unknown model %q", a.str("model", ""))
	}
	m := mk(a)
	res := newResult()
	err := readLines(a, func(line []byte) error {
		var steps []histStep
		if err := json.Unmarshal(line, &steps); err != nil {
			return err
		}
		res.Evaluations++
		m.Reset()
		for i, s := range steps {
			d := m.Do(s.A, s.R, true)
			if d == "" && len(s.Probe) > 0 {
				d = m.Check(s.Probe)
				if d != "" {
					d = fmt.Sprintf("after %s: %s", string(s.A), d)
				}
			}
			if d != "" {
				var acts []json.RawMessage
				for _, x := range steps[:i+1] {
					acts = append(acts, x.A)
				}
				res.mismatch(Mismatch{What: d, Replay: map[string]interface{}{"actions": acts, "step": i}})
				break
			}
			res.Steps++
		}
		if len(res.Samples) < 2 {
			var acts []json.RawMessage
			for _, x := range steps {
				acts = append(acts, x.A)
			}
			if len(acts) > 12 {
				acts = acts[:12]
			}
			res.Samples = append(res.Samples, acts)
		}
		return nil
	})
	if err != nil {
		fatal("hist: %v", err)
	}
	res.emit()
}
