package main

import (
	"encoding/json"
	"fmt"
	"io"
	"math/rand"
	"os"
	"runtime"
	"strconv"
	"strings"
	"sync"
	"sync/atomic"
	"time"

	"github.com/mdzio/go-mqtt/service"
)

// ---------------------------------------------------------------- gated replay of Ring schedules (C14, C15)

const unitBytes = 4096 // one model unit; Size = 4 units = the minimum ring of 16384 bytes
const ringBytes = 4 * unitBytes

// position-dependent stream: the byte at absolute offset o
func streamByte(o int64) byte {
	x := uint64(o)*0x9E3779B97F4A7C15 + 0x7F4A7C15
	return byte(x>>32) ^ byte(x>>17) ^ byte(o)
}

func fillStream(b []byte, off int64) {
	for i := range b {
		b[i] = streamByte(off + int64(i))
	}
}

func checkStream(b []byte, off int64) bool {
	for i := range b {
		if b[i] != streamByte(off+int64(i)) {
			return false
		}
	}
	return true
}

type ringEvent struct {
	site string // yield site, "ret", or an external stop ("rf.read", "wt.write")
	ret  string // for "ret": ok | eof | data | err:<text>
	m    int    // units returned / handed over
	wrap bool
	bad  bool // content check failed
}

type ringCmd struct {
	op string
	n  int
	ok bool
}

type ringRun struct {
	bf       *service.VerifBuffer
	id       int64
	ev       map[string]chan ringEvent // per process
	rel      map[string]chan struct{}  // per process gate release
	cmd      map[string]chan ringCmd
	ext      map[string]chan ringCmd // scripted reader / writer commands
	cur      atomic.Value            // process whose step is being executed (attribution of x.* sites)
	dead     int32
	produced int64 // units handed to the ring by P (for stream offsets)
	consumed int64
	pslice   []byte // result of the last WriteWait
	cslice   []byte // result of the last ReadPeek / ReadWait
}

var ringRuns sync.Map // buffer id -> *ringRun

func ringYield(id int64, site string) {
	v, ok := ringRuns.Load(id)
	if !ok {
		return
	}
	r := v.(*ringRun)
	if atomic.LoadInt32(&r.dead) == 1 {
		return
	}
	p := "C"
	switch {
	case strings.HasPrefix(site, "x."):
		p = r.cur.Load().(string)
	case strings.HasPrefix(site, "wfs.") || strings.HasPrefix(site, "w.") || strings.HasPrefix(site, "wc.") || strings.HasPrefix(site, "rf."):
		p = "P"
	}
	r.ev[p] <- ringEvent{site: site}
	<-r.rel[p]
}

func newRingRun() *ringRun {
	bf, err := service.VerifNewBuffer(4 * unitBytes)
	if err != nil {
		fatal("VerifNewBuffer: %v", err)
	}
	r := &ringRun{bf: bf, id: bf.ID(), ev: map[string]chan ringEvent{}, rel: map[string]chan struct{}{},
		cmd: map[string]chan ringCmd{}, ext: map[string]chan ringCmd{}}
	for _, p := range []string{"P", "C", "X"} {
		r.ev[p] = make(chan ringEvent, 16)
		r.rel[p] = make(chan struct{}, 16)
		r.cmd[p] = make(chan ringCmd, 4)
		r.ext[p] = make(chan ringCmd, 4)
	}
	r.cur.Store("X")
	ringRuns.Store(r.id, r)
	go r.producer()
	go r.consumer()
	go r.closer()
	return r
}

// abandon lets every goroutine of this run go free (they finish or stay blocked; the process
// is short-lived).
func (r *ringRun) abandon() {
	atomic.StoreInt32(&r.dead, 1)
	ringRuns.Delete(r.id)
	for _, p := range []string{"P", "C", "X"} {
		close(r.rel[p])
		select {
		case r.cmd[p] <- ringCmd{op: "quit"}:
		default:
		}
		select {
		case r.ext[p] <- ringCmd{op: "quit"}:
		default:
		}
	}
	go r.bf.Close() // may never return on a defective buffer
}

func errRet(err error) string {
	if err == nil {
		return "ok"
	}
	if err == io.EOF {
		return "eof"
	}
	return "err:" + err.Error()
}

type scriptedReader struct{ r *ringRun }

func (s scriptedReader) Read(b []byte) (int, error) {
	r := s.r
	// whatever region the reader is offered must be free: bytes the consumer has not released yet may not be handed out
	// for writing (a fast peer fills all it is given)
	pp, cc := r.bf.VerifCursors()
	over := int64(len(b)) > ringBytes-(pp-cc)
	r.ev["P"] <- ringEvent{site: "rf.read", m: len(b) / unitBytes, bad: over}
	c := <-r.ext["P"]
	if c.op == "quit" || c.n == 0 {
		return 0, io.EOF
	}
	n := c.n * unitBytes
	if n > len(b) {
		n = len(b)
	}
	fillStream(b[:n], r.produced*unitBytes)
	r.produced += int64(n / unitBytes)
	return n, nil
}

type scriptedWriter struct{ r *ringRun }

func (s scriptedWriter) Write(p []byte) (int, error) {
	r := s.r
	bad := !checkStream(p, r.consumed*unitBytes)
	m := len(p) / unitBytes
	if len(p)%unitBytes != 0 {
		m = 1 << 20 // not a whole number of units: some other chunking than the specification's (ends the schedule)
	}
	r.ev["C"] <- ringEvent{site: "wt.write", m: m, bad: bad}
	c := <-r.ext["C"]
	if c.op == "quit" || !c.ok {
		return 0, io.EOF // the peer is gone
	}
	bad = !checkStream(p, r.consumed*unitBytes) // still intact when it is committed
	if bad {
		r.ev["C"] <- ringEvent{site: "wt.corrupt", bad: true}
	}
	r.consumed += int64(len(p) / unitBytes)
	return len(p), nil
}

func (r *ringRun) producer() {
	for c := range r.cmd["P"] {
		switch c.op {
		case "quit":
			return
		case "W":
			b := make([]byte, c.n*unitBytes)
			fillStream(b, r.produced*unitBytes)
			n, err := r.bf.Write(b)
			if err == nil {
				r.produced += int64(c.n)
			}
			r.ev["P"] <- ringEvent{site: "ret", ret: errRet(err), m: n / unitBytes}
		case "WW":
			b, wrap, err := r.bf.WriteWait(c.n * unitBytes)
			r.pslice = b
			if err != nil {
				r.ev["P"] <- ringEvent{site: "ret", ret: errRet(err)}
			} else {
				r.ev["P"] <- ringEvent{site: "ret", ret: "reserved", wrap: wrap, m: c.n}
			}
		case "WC":
			fillStream(r.pslice[:c.n*unitBytes], r.produced*unitBytes)
			n, err := r.bf.WriteCommit(c.n * unitBytes)
			if err == nil {
				r.produced += int64(c.n)
			}
			r.ev["P"] <- ringEvent{site: "ret", ret: errRet(err), m: n / unitBytes}
		case "RF":
			_, err := r.bf.ReadFrom(scriptedReader{r})
			r.ev["P"] <- ringEvent{site: "ret", ret: errRet(err)}
		}
	}
}

func (r *ringRun) consumer() {
	for c := range r.cmd["C"] {
		switch c.op {
		case "quit":
			return
		case "R":
			b := make([]byte, c.n*unitBytes)
			n, err := r.bf.Read(b)
			bad := err == nil && (!checkStream(b[:n], r.consumed*unitBytes) || n%unitBytes != 0)
			if err == nil {
				r.consumed += int64(n / unitBytes)
			}
			r.ev["C"] <- ringEvent{site: "ret", ret: errRet(err), m: n / unitBytes, bad: bad}
		case "RP", "RW":
			var b []byte
			var err error
			if c.op == "RP" {
				b, err = r.bf.ReadPeek(c.n * unitBytes)
				if err == service.ErrBufferInsufficientData {
					err = nil
				}
			} else {
				b, err = r.bf.ReadWait(c.n * unitBytes)
			}
			r.cslice = b
			if err != nil {
				r.ev["C"] <- ringEvent{site: "ret", ret: errRet(err)}
			} else {
				bad := !checkStream(b, r.consumed*unitBytes) || len(b)%unitBytes != 0
				r.ev["C"] <- ringEvent{site: "ret", ret: "data", m: len(b) / unitBytes, bad: bad}
			}
		case "RC":
			// the peeked bytes must still be intact when they are committed
			bad := !checkStream(r.cslice[:c.n*unitBytes], r.consumed*unitBytes)
			n, err := r.bf.ReadCommit(c.n * unitBytes)
			if err == nil {
				r.consumed += int64(c.n)
			}
			r.ev["C"] <- ringEvent{site: "ret", ret: errRet(err), m: n / unitBytes, bad: bad}
		case "WT":
			_, err := r.bf.WriteTo(scriptedWriter{r})
			r.ev["C"] <- ringEvent{site: "ret", ret: errRet(err)}
		}
	}
}

func (r *ringRun) closer() {
	for c := range r.cmd["X"] {
		if c.op == "quit" {
			return
		}
		err := r.bf.Close()
		r.ev["X"] <- ringEvent{site: "ret", ret: errRet(err)}
	}
}

type ringSched struct {
	H    []string `json:"h"`
	Post struct {
		Pseq int    `json:"pseq"`
		Cseq int    `json:"cseq"`
		Pmu  string `json:"pmu"`
		Cmu  string `json:"cmu"`
		Fin  bool   `json:"fin"`
	} `json:"post"`
}

type ringStep struct {
	p, k, a string
	n       int
	pc      string
	ps, cs  int
	pfree   bool
	cfree   bool
	ret     string
	m       int
}

func parseRingStep(s string) ringStep {
	f := strings.Split(s, " ")
	if len(f) < 11 {
		fatal("bad ring step %q", s)
	}
	at := func(i int) int { v, _ := strconv.Atoi(f[i]); return v }
	return ringStep{p: f[0], k: f[1], a: f[2], n: at(3), pc: f[4], ps: at(5), cs: at(6), pfree: f[7] == "1", cfree: f[8] == "1", ret: f[9], m: at(10)}
}

var ringStepTimeout = 4 * time.Second

// waitEvent waits for the next stop of process p.
func (r *ringRun) waitEvent(p string) (ringEvent, bool) {
	select {
	case e := <-r.ev[p]:
		return e, true
	case <-time.After(ringStepTimeout):
		return ringEvent{}, false
	}
}

// pcOf maps what the replayer observed to the control state of the specification.
func pcOf(st ringStep, e ringEvent, pump bool) string {
	if e.site != "ret" {
		return e.site
	}
	switch e.ret {
	case "reserved":
		if e.wrap {
			return "ww.wrap"
		}
		return "ww.fill"
	case "data":
		if st.a == "RW" || (st.k != "s" && strings.HasPrefix(st.pc, "rw")) {
			return "rw.use"
		}
		return "rp.use"
	}
	return "idle"
}

// replayRing forces one TLC-generated schedule on the real buffer. Returns "" or a mismatch.
func replayRing(sc *ringSched, stats map[string]int) string {
	r := newRingRun()
	defer r.abandon()
	lastOp := map[string]string{}
	waiting := map[string]bool{} // processes parked in cond.Wait
	for i, raw := range sc.H {
		st := parseRingStep(raw)
		next := ""
		if i+1 < len(sc.H) {
			next = parseRingStep(sc.H[i+1]).k
		}
		r.cur.Store(st.p)
		where := fmt.Sprintf("step %d %q", i, raw)
		switch st.k {
		case "s":
			lastOp[st.p] = st.a
			r.cmd[st.p] <- ringCmd{op: st.a, n: st.n}
		case "c":
			r.cmd[st.p] <- ringCmd{op: st.a, n: st.n}
		case "d":
			r.ext[st.p] <- ringCmd{n: st.n, ok: st.n > 0}
		case "g":
			r.rel[st.p] <- struct{}{}
		case "w":
			// nothing to release: the waiter was woken by the previous step
		}
		stats["step:"+st.k]++
		parked := strings.HasSuffix(st.pc, ".parked")
		if parked {
			waiting[st.p] = true
		} else if st.k == "w" {
			delete(waiting, st.p)
		}
		if parked {
			// the process goes into cond.Wait: no stop follows; it has released the mutex
			// when the probe finds it free
			deadline := time.Now().Add(ringStepTimeout)
			for {
				select {
				case e := <-r.ev[st.p]:
					return fmt.Sprintf("%s: specification says the %s parks in Wait, the code went on to %s %s", where, st.p, e.site, e.ret)
				default:
				}
				pf, cf := r.bf.VerifLocksFree()
				if (strings.HasPrefix(st.pc, "wfs") && pf) || (!strings.HasPrefix(st.pc, "wfs") && cf) {
					break
				}
				if time.Now().After(deadline) {
					return fmt.Sprintf("%s: the mutex was not released by Wait", where)
				}
				runtime.Gosched()
			}
			stats["parked"]++
		} else {
			e, ok := r.waitEvent(st.p)
			if !ok {
				pf, cf := r.bf.VerifLocksFree()
				return fmt.Sprintf("%s: BLOCKED: the specification enables this step (next stop %s) but the code did not get there within %v (pcond.L free=%v, ccond.L free=%v)", where, st.pc, ringStepTimeout, pf, cf)
			}
			if e.site == "rf.read" && e.bad {
				return fmt.Sprintf("%s: ReadFrom offers its reader %d units although fewer are free: received bytes would overwrite bytes the consumer has not read (cursors)", where, e.m)
			}
			if e.site == "wt.corrupt" || e.bad {
				return fmt.Sprintf("%s: the consumer received bytes that are not the next bytes of the stream", where)
			}
			st2 := st
			if st.k != "s" {
				st2.a = lastOp[st.p]
			}
			got := pcOf(st2, e, false)
			if got == "idle" && (st.pc == "rf.top" || st.pc == "wt.top") {
				got = st.pc // unreachable: pump loops do not return
			}
			if got != st.pc {
				return fmt.Sprintf("%s: the code stopped at %q (%s), specification %q", where, got, e.ret, st.pc)
			}
			if e.site == "ret" {
				stats["returns"]++
				if st.pc == "idle" && st.ret != "-" && e.ret != st.ret {
					return fmt.Sprintf("%s: call returned %q, specification %q", where, e.ret, st.ret)
				}
				if st.pc == "idle" && st.ret == "ok" && st.p == "C" && lastOp["C"] == "R" && e.m != st.m {
					return fmt.Sprintf("%s: Read returned %d units, specification %d", where, e.m, st.m)
				}
				if e.ret == "data" && e.m != st.m {
					return fmt.Sprintf("%s: %d units handed to the consumer, specification %d", where, e.m, st.m)
				}
				if e.ret == "eof" {
					stats["eof-returns"]++
				}
			}
			if e.site == "wt.write" && e.m != st.m {
				// how WriteTo cuts the stream into writes is not part of any property (the bytes were checked to be
				// the next bytes of the stream): the specification's WriteTo peeks one block and joins a wrapped
				// region, an implementation may hand over less or more. The rest of this schedule assumes the
				// specification's chunking, so it ends here; nothing is reported.
				if e.m < 1 {
					return fmt.Sprintf("%s: the writer was handed %d units", where, e.m)
				}
				stats["chunking_differs"]++
				return ""
			}
		}
		p, c := r.bf.VerifCursors()
		if p != int64(st.ps)*unitBytes || c != int64(st.cs)*unitBytes {
			return fmt.Sprintf("%s: cursors (%d,%d) bytes, specification (%d,%d) units", where, p, c, st.ps, st.cs)
		}
		if next != "w" && !parked {
			pf, cf := r.bf.VerifLocksFree()
			// the last step of a schedule may have woken a waiter (in the replayable regime the wake-up would be the
			// next step): it re-acquires its mutex on its own, so that mutex is not compared
			last := i+1 == len(sc.H)
			if last && waiting["P"] {
				pf = st.pfree
			}
			if last && waiting["C"] {
				cf = st.cfree
			}
			if pf != st.pfree || cf != st.cfree {
				return fmt.Sprintf("%s: mutexes free (pcond.L=%v, ccond.L=%v), specification (%v, %v)", where, pf, cf, st.pfree, st.cfree)
			}
			stats["lockprobes"]++
		}
	}
	return ""
}

var ringOwn string

func cmdRingReplay(a Args) {
	service.VerifYieldFn = ringYield
	ringOwn = a.str("own", "")
	res := newResult()
	if ms := a.num("stepms", 0); ms > 0 {
		ringStepTimeout = time.Duration(ms) * time.Millisecond
	}
	err := readLines(a, func(line []byte) error {
		var sc ringSched
		if err := json.Unmarshal(line, &sc); err != nil {
			return err
		}
		// the verdict is clear after a few confirmed blocked steps (each costs three deadlines)
		// or many mismatches: skip the rest of this shard
		// (the running property's own observations decide when enough has been seen; those of the other ring property
		// only bound the run time)
		if res.Counts["blocked_confirmed"] >= 3 || res.Counts["tag:"+ringOwn] >= 100 || res.NMismatch >= 3000 {
			res.Counts["skipped_after_violation"]++
			return nil
		}
		res.Evaluations++
		res.Steps += len(sc.H)
		d := replayRing(&sc, res.Counts)
		if d != "" && strings.Contains(d, "BLOCKED") {
			// liveness observation: must reproduce on two further replays of the same schedule
			d2 := replayRing(&sc, map[string]int{})
			d3 := replayRing(&sc, map[string]int{})
			if !(strings.Contains(d2, "BLOCKED") && strings.Contains(d3, "BLOCKED")) {
				res.Notes = append(res.Notes, "unreproduced block: "+d)
				res.Counts["unreproduced_block"]++
				d = ""
				if d2 != "" && !strings.Contains(d2, "BLOCKED") {
					d = d2
				}
			}
		}
		if d != "" && strings.Contains(d, "BLOCKED") {
			res.Counts["blocked_confirmed"]++
		}
		if d != "" {
			tag := "C15"
			if strings.Contains(d, "received bytes") || strings.Contains(d, "cursors (") || strings.Contains(d, "units") {
				tag = "C14"
			}
			// the specification makes the process wait (no room / no data) and the code went on: that is the
			// overwrite / read-ahead half of the FIFO property, not a blocking problem
			if strings.Contains(d, "the code went on to") || strings.HasSuffix(d, ".wait\"") || strings.HasSuffix(d, ".parked\"") {
				tag = "C14"
			}
			// the code is about to move a cursor or copy bytes where the specification does something else first (e.g.
			// releases bytes before they were handed out): the order of these steps is what keeps the FIFO intact
			for _, site := range []string{"rc.set", "wc.set", "w.copy", "r.copy"} {
				if strings.Contains(d, "the code stopped at \""+site+"\"") {
					tag = "C14"
				}
			}
			res.Counts["tag:"+tag]++
			res.mismatch(Mismatch{What: d, Tag: tag, Replay: map[string]interface{}{"schedule": sc.H}})
		}
		if len(res.Samples) < 2 && len(sc.H) > 12 {
			res.Samples = append(res.Samples, sc.H)
		}
		return nil
	})
	if err != nil {
		fatal("ringreplay: %v", err)
	}
	res.emit()
}

// ---------------------------------------------------------------- free-running stream traces (direction B)

// ringstream: a producer and a consumer run free (real scheduling) on rings of 16 KiB and
// 256 KiB with random chunk sizes and random operation kinds; the producer logs a "put" event
// before each call, the consumer a "got" event after each successful call, with one global
// sequence number. TLC validates the log against RingStreamTrace.
func cmdRingStream(a Args) {
	seed := int64(a.num("seed", 1))
	ntr := a.num("traces", 20)
	total := int64(a.num("bytes", 300000))
	out, err := os.Create(a.str("out", "trace.ndjson"))
	if err != nil {
		fatal("%v", err)
	}
	defer out.Close()
	res := newResult()
	var mu sync.Mutex
	enc := json.NewEncoder(out)
	logEv := func(ev map[string]interface{}) {
		mu.Lock()
		enc.Encode(ev)
		res.Steps++
		mu.Unlock()
	}
	for t := 0; t < ntr; t++ {
		size := int64(16384)
		if t%3 == 2 {
			size = 262144
		}
		bf, err := service.VerifNewBuffer(size)
		if err != nil {
			fatal("%v", err)
		}
		logEv(map[string]interface{}{"e": "reset", "size": size})
		var wg sync.WaitGroup
		wg.Add(2)
		pmode, cmode := t%2, (t/2)%2
		stuck := make(chan string, 2)
		go func() { // producer
			defer wg.Done()
			rng := rand.New(rand.NewSource(seed*7919 + int64(t)*2))
			var off int64
			if pmode == 1 {
				// pump: ReadFrom a reader that hands out random chunks
				rd := &randReader{rng: rng, total: total, log: logEv}
				bf.ReadFrom(rd)
				return
			}
			for off < total {
				n := int64(1 + rng.Intn(8192))
				if rng.Intn(4) == 0 {
					n = int64(1 + rng.Intn(64))
				}
				if off+n > total {
					n = total - off
				}
				logEv(map[string]interface{}{"e": "put", "n": n})
				if rng.Intn(2) == 0 {
					b := make([]byte, n)
					fillStream(b, off)
					if _, err := bf.Write(b); err != nil {
						stuck <- "Write: " + err.Error()
						return
					}
				} else {
					b, wrap, err := bf.WriteWait(int(n))
					if err != nil {
						stuck <- "WriteWait: " + err.Error()
						return
					}
					if wrap {
						tmp := make([]byte, n)
						fillStream(tmp, off)
						if _, err := bf.Write(tmp); err != nil {
							stuck <- "Write: " + err.Error()
							return
						}
					} else {
						fillStream(b[:n], off)
						if _, err := bf.WriteCommit(int(n)); err != nil {
							stuck <- "WriteCommit: " + err.Error()
							return
						}
					}
				}
				off += n
			}
			bf.Close()
		}()
		go func() { // consumer
			defer wg.Done()
			rng := rand.New(rand.NewSource(seed*7919 + int64(t)*2 + 1))
			var off int64
			if cmode == 1 {
				wr := &checkWriter{log: logEv}
				bf.WriteTo(wr)
				return
			}
			for off < total {
				n := int64(1 + rng.Intn(8192))
				if off+n > total {
					n = total - off
				}
				var got []byte
				switch rng.Intn(3) {
				case 0:
					b := make([]byte, n)
					k, err := bf.Read(b)
					if err != nil {
						if err == io.EOF {
							return
						}
						stuck <- "Read: " + err.Error()
						return
					}
					got = b[:k]
					logEv(map[string]interface{}{"e": "got", "n": len(got), "ok": checkStream(got, off)})
				case 1:
					b, err := bf.ReadPeek(int(n))
					if err != nil && err != service.ErrBufferInsufficientData {
						if err == io.EOF {
							return
						}
						stuck <- "ReadPeek: " + err.Error()
						return
					}
					got = b
					ok := checkStream(got, off)
					if _, err := bf.ReadCommit(len(b)); err != nil {
						stuck <- "ReadCommit: " + err.Error()
						return
					}
					logEv(map[string]interface{}{"e": "got", "n": len(got), "ok": ok})
				case 2:
					b, err := bf.ReadWait(int(n))
					if err != nil {
						if err == io.EOF {
							return
						}
						stuck <- "ReadWait: " + err.Error()
						return
					}
					got = b
					ok := checkStream(got, off)
					if _, err := bf.ReadCommit(len(b)); err != nil {
						stuck <- "ReadCommit: " + err.Error()
						return
					}
					logEv(map[string]interface{}{"e": "got", "n": len(got), "ok": ok})
				}
				off += int64(len(got))
			}
		}()
		donec := make(chan struct{})
		go func() { wg.Wait(); close(donec) }()
		select {
		case <-donec:
		case <-time.After(20 * time.Second):
			// a stuck pair is a liveness observation for C15, not a C14 verdict: reported as a note
			res.Counts["stuck_traces"]++
			res.Notes = append(res.Notes, fmt.Sprintf("trace %d (pmode=%d cmode=%d size=%d) did not finish within 20 s", t, pmode, cmode, size))
			bf.Close()
		}
		select {
		case s := <-stuck:
			res.Notes = append(res.Notes, "call failed: "+s)
		default:
		}
		res.Evaluations++
	}
	res.emit()
}

type randReader struct {
	rng   *rand.Rand
	total int64
	off   int64
	log   func(map[string]interface{})
}

func (r *randReader) Read(b []byte) (int, error) {
	if r.off >= r.total {
		return 0, io.EOF
	}
	n := int64(1 + r.rng.Intn(len(b)))
	if r.off+n > r.total {
		n = r.total - r.off
	}
	r.log(map[string]interface{}{"e": "put", "n": n})
	fillStream(b[:n], r.off)
	r.off += n
	return int(n), nil
}

type checkWriter struct {
	off int64
	log func(map[string]interface{})
}

func (w *checkWriter) Write(p []byte) (int, error) {
	ok := checkStream(p, w.off)
	w.off += int64(len(p))
	w.log(map[string]interface{}{"e": "got", "n": len(p), "ok": ok})
	return len(p), nil
}

func init() {
	commands["ringreplay"] = cmdRingReplay
	commands["ringstream"] = cmdRingStream
}
