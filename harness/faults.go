package main

import (
	"bytes"
	"encoding/json"
	"fmt"
	"net"
	"runtime"
	"strings"
	"sync/atomic"
	"time"

	"github.com/mdzio/go-mqtt/service"
)

// ---------------------------------------------------------------- C05 / C16: fault sequences on a real broker

type fStep struct {
	A       string `json:"a"`
	C       string `json:"c"`
	Gone    bool   `json:"gone"`
	Free    bool   `json:"free"`
	Cross   bool   `json:"cross"`
	SelfSub bool   `json:"selfsub"`
	Wk      string `json:"wk"`   // "none" | "small" | "big": the wills of P and S
	Will    string `json:"will"` // what this step means for the will of C: "due" | "never" | "-"
}
type fScenario struct {
	H    []fStep  `json:"h"`
	Rest []string `json:"rest"`
}

// a raw client with a background reader that can be told to stop reading
type fClient struct {
	half    *halfConn
	name    string
	c       net.Conn
	svc     uint64
	reading int32
	closed  int32 // the broker closed the connection (EOF seen)
	rx      chan rawPkt
	cut     bool
	wq      chan []byte // whole packets, written one after the other by the client's writer goroutine
}

// writeLoop: a real client writes whole packets; when the broker stops reading it simply blocks
// (a write deadline could leave half a packet on the wire and turn the rest of the stream into garbage)
func (f *fClient) writeLoop() {
	for b := range f.wq {
		f.c.SetWriteDeadline(time.Time{})
		if _, err := f.c.Write(b); err != nil {
			return
		}
	}
}

func (f *fClient) readLoop() {
	for {
		for atomic.LoadInt32(&f.reading) == 0 {
			time.Sleep(2 * time.Millisecond)
			if f.cut {
				return
			}
		}
		// no deadline: a deadline that expires in the middle of a packet would lose the framing
		p, err := readPkt(f.c, time.Hour)
		if err != nil {
			atomic.StoreInt32(&f.closed, 1)
			return
		}
		if p.first>>4 == 3 && len(f.rx) > cap(f.rx)/2 {
			continue // nobody is interested in bulk traffic; keep room for control packets
		}
		select {
		case f.rx <- p:
		default:
		}
	}
}

type faultRun struct {
	r       *brokerRun
	cl      map[string]*fClient
	seq     int
	closedS bool
	wk      string
	wills   map[string]int  // wills seen by the witness subscriber, per client
	never   map[string]bool // clients that ended with DISCONNECT
}

// noteWill: a PUBLISH on w/will/<name> at the witness subscriber is the will of <name>
func (fr *faultRun) noteWill(p rawPkt) bool {
	if p.first>>4 != 3 || len(p.body) < 2 {
		return false
	}
	tl := int(p.body[0])<<8 | int(p.body[1])
	if len(p.body) < 2+tl {
		return false
	}
	t := string(p.body[2 : 2+tl])
	if !strings.HasPrefix(t, "w/will/") {
		return false
	}
	fr.wills[strings.TrimPrefix(t, "w/will/")]++
	return true
}

// willProblem: a will published twice, or the will of a client that said DISCONNECT
func (fr *faultRun) willProblem() string {
	for name, n := range fr.wills {
		if fr.never[name] {
			return fmt.Sprintf("the will of %s was published although it ended with DISCONNECT", name)
		}
		if n > 1 {
			return fmt.Sprintf("the will of %s was published %d times", name, n)
		}
	}
	return ""
}

// awaitWill: after the teardown of an abnormally ended connection is complete, its will has been published
func (fr *faultRun) awaitWill(name string) string {
	w2 := fr.cl["W2"]
	deadline := time.After(3 * time.Second)
	for fr.wills[name] == 0 {
		select {
		case p := <-w2.rx:
			if !fr.noteWill(p) {
				return fmt.Sprintf("witness subscriber received a packet that is not its own traffic: %x %x", p.first, short(string(p.body), 24))
			}
		case <-deadline:
			return fmt.Sprintf("the connection of %s ended without DISCONNECT and its teardown is complete, but its will was not published", name)
		}
	}
	return ""
}

func (fr *faultRun) connect(name, cid string, subs ...string) (*fClient, string) {
	bev.mu.Lock()
	n0 := len(bev.admit)
	bev.mu.Unlock()
	act := bAct{K: cid, Clean: true, Ka: 600}
	if name == "W1" {
		// the witness publisher connects without a client identifier (the broker assigns one): its clean session
		// must be gone with its connection like everybody else's
		act.Form = "anon"
	}
	if (name == "P" || name == "S") && fr.wk != "" && fr.wk != "none" {
		act.Will = bWill{On: true, T: "w/will/" + name, Pl: "w1", Q: 0}
		if fr.wk == "big" {
			act.Will.Pl = "HUGE" // 20,000 bytes: more than a 16 KiB ring
		}
		if fr.wk == "mid" {
			act.Will.Pl = "MID" // 12,000 bytes: fits the ring, but is longer than any message a client can publish through it
		}
	}
	m, err := fr.r.rawConnect(name, act)
	if err != nil {
		return nil, "INFRA connect " + name + ": " + err.Error()
	}
	deadline := time.Now().Add(3 * time.Second)
	for m.svc == 0 && time.Now().Before(deadline) {
		bev.mu.Lock()
		if len(bev.admit) > n0 {
			m.svc = bev.admit[len(bev.admit)-1]
		}
		bev.mu.Unlock()
		time.Sleep(50 * time.Microsecond)
	}
	if m.svc == 0 {
		return nil, "INFRA " + name + " never admitted"
	}
	for i, f := range subs {
		m.c.Write(pkt(0x82, append([]byte{0, byte(i + 1)}, append(lp([]byte(f)), 1)...)))
		if p, err := readPkt(m.c, 3*time.Second); err != nil || p.first != 0x90 {
			return nil, fmt.Sprintf("INFRA %s subscribe %s: %v", name, f, err)
		}
	}
	f := &fClient{name: name, c: m.c, half: m.half, svc: m.svc, reading: 1, rx: make(chan rawPkt, 64), wq: make(chan []byte, 256)}
	fr.cl[name] = f
	go f.readLoop()
	go f.writeLoop()
	return f, ""
}

func bigPublish(topic string, n int, tag byte) []byte {
	pl := bytes.Repeat([]byte{tag}, n)
	return pkt(0x30, append(lp([]byte(topic)), pl...))
}

func (fr *faultRun) write(f *fClient, b []byte, d time.Duration) error {
	if f.wq == nil {
		f.c.SetWriteDeadline(time.Now().Add(d))
		_, err := f.c.Write(b)
		return err
	}
	select {
	case f.wq <- b:
		return nil
	default:
		return fmt.Errorf("client write queue full")
	}
}

// witness: W1 publishes one QoS 1 message, W2 must receive exactly it, both must answer
func (fr *faultRun) witness() string {
	fr.seq++
	w1, w2 := fr.cl["W1"], fr.cl["W2"]
	payload := []byte(fmt.Sprintf("witness-%d", fr.seq))
	for len(w2.rx) > 0 {
		fr.noteWill(<-w2.rx)
	}
	for len(w1.rx) > 0 {
		<-w1.rx
	}
	body := append(append(lp([]byte("w/1")), 0, byte(fr.seq%250+1)), payload...)
	if err := fr.write(w1, pkt(0x32, body), 3*time.Second); err != nil {
		return "witness publisher cannot write: " + err.Error()
	}
	gotAck, gotMsg := false, false
	deadline := time.After(4 * time.Second)
	for !(gotAck && gotMsg) {
		select {
		case p := <-w1.rx:
			if p.first == 0x40 {
				gotAck = true
			}
		case p := <-w2.rx:
			if p.first>>4 == 3 && bytes.HasSuffix(p.body, payload) {
				gotMsg = true
			} else if fr.noteWill(p) {
				// a will on its way to the witness: accounted for
			} else {
				return fmt.Sprintf("witness subscriber received a packet that is not its own traffic: %x %x", p.first, short(string(p.body), 24))
			}
		case <-deadline:
			return fmt.Sprintf("witness traffic stalled (PUBACK seen=%v, delivery seen=%v, publisher closed=%v, subscriber closed=%v)",
				gotAck, gotMsg, atomic.LoadInt32(&w1.closed) == 1, atomic.LoadInt32(&w2.closed) == 1)
		}
	}
	return ""
}

// settle waits until the client's writer has got rid of what it can (the queue is empty, or the broker has
// stopped reading and the queue does not shrink any more), so that the next step finds the broker in the
// state the sequence is about (e.g. a processor parked on a full ring) rather than on its way there
func (fr *faultRun) settle(f *fClient) {
	last, stable := len(f.wq), 0
	for i := 0; i < 200 && stable < 15; i++ {
		time.Sleep(2 * time.Millisecond)
		if n := len(f.wq); n == last {
			stable++
		} else {
			last, stable = n, 0
		}
	}
}

// ping: the client must get a PINGRESP (everything else it receives meanwhile is bulk traffic)
func (fr *faultRun) ping(f *fClient) string {
	if err := fr.write(f, []byte{0xc0, 0}, time.Second); err != nil {
		return ""
	}
	deadline := time.After(faultDeadline)
	for {
		select {
		case p := <-f.rx:
			if p.first == 0xd0 {
				return ""
			}
		case <-deadline:
			if atomic.LoadInt32(&f.closed) == 1 {
				return "" // it was closed for a reason of its own (handled by the step's expectations)
			}
			return fmt.Sprintf("client %s, which did nothing wrong, is no longer served (no PINGRESP within %v) although nobody who stopped reading is left", f.name, faultDeadline)
		}
	}
}

// probe: the witness publisher publishes on the topic of P and S; every client that is subscribed to it, still
// connected and reading must receive the message - whoever else was subscribed and has gone, however it went
func (fr *faultRun) probe(selfsub bool) string {
	fr.seq++
	payload := []byte(fmt.Sprintf("probe-%d", fr.seq))
	var want []*fClient
	for _, name := range []string{"S", "P"} {
		b := fr.cl[name]
		if b == nil || b.cut || atomic.LoadInt32(&b.closed) == 1 || atomic.LoadInt32(&b.reading) == 0 || (name == "P" && !selfsub) {
			continue
		}
		for len(b.rx) > 0 {
			<-b.rx
		}
		want = append(want, b)
	}
	if len(want) == 0 {
		return ""
	}
	if err := fr.write(fr.cl["W1"], pkt(0x30, append(lp([]byte("t")), payload...)), 3*time.Second); err != nil {
		return ""
	}
	for _, b := range want {
		deadline := time.After(faultDeadline)
		got := false
		for !got {
			select {
			case p := <-b.rx:
				if p.first>>4 == 3 && bytes.HasSuffix(p.body, payload) {
					got = true
				}
			case <-deadline:
				if atomic.LoadInt32(&b.closed) == 1 {
					got = true // closed for a reason of its own
					break
				}
				return fmt.Sprintf("client %s is subscribed to the topic, connected and reading, but a message published on it by a third client does not arrive within %v (nobody who stopped reading is left)", b.name, faultDeadline)
			}
		}
	}
	return ""
}

func waitStop(svc uint64, d time.Duration) bool {
	select {
	case <-bev.stopCh(svc):
		return true
	case <-time.After(d):
		return false
	}
}

func libraryGoroutines() (int, string) {
	buf := make([]byte, 1<<20)
	n := runtime.Stack(buf, true)
	cnt, first := 0, ""
	for _, g := range strings.Split(string(buf[:n]), "\n\n") {
		if strings.Contains(g, "go-mqtt/service.(*service)") || strings.Contains(g, "go-mqtt/service.(*buffer)") || strings.Contains(g, "go-mqtt/service.(*Server)") {
			cnt++
			if first == "" {
				lines := strings.Split(g, "\n")
				if len(lines) > 6 {
					lines = lines[:6]
				}
				first = strings.Join(lines, " | ")
			}
		}
	}
	return cnt, first
}

var faultDeadline = 6 * time.Second

// runFaults executes one fault sequence; returns (mismatch, tag)
// faultsOwn: the property whose check is running ("" = any). An observation of another property made in the middle of
// a step does not end the sequence: the rest of the step's expectations (which may be the running property's) is
// still evaluated, and the foreign observation is returned only if nothing of its own turns up.
var faultsOwn string

func runFaults(sc *fScenario) (d string, tag string) {
	foreignD, foreignT := "", ""
	defer func() {
		if d == "" && foreignD != "" {
			d, tag = foreignD, foreignT
		}
	}()
	base, _ := libraryGoroutines()
	lifeRec.begin()
	defer func() { lifeRec.end(d == "" && foreignD == "") }() // runs after the clean-up below: every connection has been ended
	r := newBrokerRun("mockSuccess", 2)
	fr := &faultRun{r: r, cl: map[string]*fClient{}, wills: map[string]int{}, never: map[string]bool{}}
	if len(sc.H) > 0 {
		fr.wk = sc.H[0].Wk
	}
	defer func() {
		for _, f := range fr.cl {
			f.cut = true
			f.c.Close()
		}
		r.cleanup()
	}()
	cross := len(sc.H) > 0 && sc.H[0].Cross
	if _, e := fr.connect("W1", "fw1"); e != "" {
		return e, "INFRA"
	}
	if _, e := fr.connect("W2", "fw2", "w/#"); e != "" {
		return e, "INFRA"
	}
	// P and S also hold subscriptions below the level the witness subscriber's filter "w/#" starts with: when their
	// connections go, the witness's subscription must stay (nodes shared by several clients' filters)
	psubs := []string{"w/p/x"}
	if cross {
		psubs = append(psubs, "u")
	}
	if len(sc.H) > 0 && sc.H[0].SelfSub {
		psubs = append(psubs, "t")
	}
	if _, e := fr.connect("P", "fp", psubs...); e != "" {
		return e, "INFRA"
	}
	if _, e := fr.connect("S", "fs", "t", "w/s"); e != "" {
		return e, "INFRA"
	}
	closeDone := make(chan struct{})
	for i, st := range sc.H {
		where := fmt.Sprintf("step %d %s(%s)", i, st.A, st.C)
		f := fr.cl[st.C]
		switch st.A {
		case "burst":
			topic := "t"
			if st.C == "S" {
				topic = "u"
			}
			for k := 0; k < 5; k++ {
				if err := fr.write(f, bigPublish(topic, 6000, byte('a'+k)), 250*time.Millisecond); err != nil {
					break
				}
			}
			fr.settle(f)
		case "stopreading":
			atomic.StoreInt32(&f.reading, 0)
			time.Sleep(5 * time.Millisecond)
		case "resume":
			atomic.StoreInt32(&f.reading, 1)
		case "pipeline-subscribe":
			// a SUBSCRIBE written while the client does not read (its SUBACK finds the client's own ring full)
			fr.write(f, pkt(0x82, append([]byte{0, 9}, append(lp([]byte("extra/1")), 0)...)), 250*time.Millisecond)
			fr.settle(f)
		case "pipeline-bad", "pipeline-disconnect":
			// an ending packet with plenty of data behind it, written while the broker has stopped
			// reading this connection (writes that do not get through are dropped)
			first := []byte{0x36, 0x03, 0x00, 0x01, 't'} // PUBLISH with QoS 3: malformed
			if st.A == "pipeline-disconnect" {
				first = []byte{0xe0, 0}
			}
			if fr.write(f, first, 250*time.Millisecond) == nil {
				for k := 0; k < 3; k++ {
					if fr.write(f, bigPublish("t", 6000, byte('p'+k)), 250*time.Millisecond) != nil {
						break
					}
				}
			}
			fr.settle(f)
		case "cut":
			f.cut = true
			f.c.Close()
		case "ping-halfclose":
			// a PINGREQ, then the client shuts down its sending direction only
			fr.write(f, []byte{0xc0, 0}, 250*time.Millisecond)
			time.Sleep(20 * time.Millisecond)
			f.half.halfClose()
		case "disconnect":
			fr.write(f, []byte{0xe0, 0}, time.Second)
		case "bad":
			fr.write(f, []byte{0x30, 0x01, 0x00}, time.Second)
		case "over":
			// a packet longer than ring minus one read block, arriving in chunks
			p := bigPublish("t", 12000, 'o')
			for off := 0; off < len(p); off += 5000 {
				end := off + 5000
				if end > len(p) {
					end = len(p)
				}
				if err := fr.write(f, append([]byte(nil), p[off:end]...), 400*time.Millisecond); err != nil {
					break
				}
			}
		case "edge":
			// remaining length = 16 KiB ring minus one read block: the packet is three bytes over what the broker takes;
			// all but its last two bytes arrive, in read-block sized segments
			p := pkt(0x30, append(lp([]byte("t")), bytes.Repeat([]byte{'e'}, 8192-3)...))
			p = p[:len(p)-2]
			for off := 0; off < len(p); off += 4096 {
				end := off + 4096
				if end > len(p) {
					end = len(p)
				}
				if err := fr.write(f, append([]byte(nil), p[off:end]...), 400*time.Millisecond); err != nil {
					break
				}
			}
			time.Sleep(20 * time.Millisecond)
			f.cut = true
			f.c.Close()
		case "serverclose":
			go func() { r.svr.Close(); close(closeDone) }()
			select {
			case <-closeDone:
			case <-time.After(faultDeadline):
				n, first := libraryGoroutines()
				return fmt.Sprintf("%s: Server.Close did not return within %v (%d library goroutines, e.g. %s)", where, faultDeadline, n-base, short(first, 300)), "C16"
			}
			fr.closedS = true
		default: // attacker kinds
			cl, sv := net.Pipe()
			if err := service.VerifServe(r.svr, sv); err != nil {
				return "INFRA VerifServe: " + err.Error(), "INFRA"
			}
			a := &fClient{name: "A", c: cl, reading: 1, rx: make(chan rawPkt, 8)}
			fr.cl["A"] = a
			w := func(b []byte) { cl.SetWriteDeadline(time.Now().Add(500 * time.Millisecond)); cl.Write(b) }
			okConnect := connectBytes(bAct{K: "fatt", Clean: true, Ka: 600})
			post := func() {
				go w(okConnect)
				readPkt(cl, 2*time.Second) // CONNACK
			}
			selfCut := false
			switch st.A {
			case "pre-garbage":
				w([]byte{0xff, 0xff, 0xff, 0xff, 0xff, 0xff, 0xff, 0xff})
			case "pre-truncated-connect":
				w([]byte{0x10, 0x02, 0x00, 0x00})
			case "pre-cut-in-header":
				w([]byte{0x10})
				cl.Close()
				selfCut = true
			case "pre-cut-in-body":
				w(okConnect[:9])
				cl.Close()
				selfCut = true
			case "pre-huge-remlen":
				w([]byte{0x10, 0xff, 0xff, 0xff, 0x7f, 0x00, 0x04})
				cl.Close() // the broker may legitimately wait for the announced bytes until its connect timeout
				selfCut = true
			case "pre-remlen-five-bytes":
				// a remaining length of five bytes (not MQTT: at most four) announcing 34 GB
				w([]byte{0x10, 0xff, 0xff, 0xff, 0xff, 0x7f})
			case "post-truncated-publish":
				post()
				w([]byte{0x30, 0x01, 0x00})
			case "post-garbage":
				post()
				w([]byte{0xf7, 0x03, 0x01, 0x02, 0x03})
			case "post-huge-remlen":
				post()
				w([]byte{0x30, 0xff, 0xff, 0xff, 0x7f, 0x00, 0x01, 'a'})
			case "post-cut-mid-packet":
				post()
				w(bigPublish("t", 3000, 'c')[:1500])
				cl.Close()
				selfCut = true
			case "post-bad-flags":
				post()
				w([]byte{0x83, 0x06, 0x00, 0x01, 0x00, 0x01, 'a', 0x00}) // SUBSCRIBE with reserved flag bits wrong
			case "post-second-connect":
				post()
				w(okConnect)
			case "post-zero-length-topic":
				post()
				w([]byte{0x30, 0x03, 0x00, 0x00, 'x'})
			case "post-refused-filter":
				post()
				w(pkt(0x82, append([]byte{0, 5}, append(append(lp([]byte("t/#/x")), 1), append(lp([]byte("$SYS/#")), 0)...)...)))
			case "post-unsubscribe-unknown":
				post()
				w(pkt(0xa2, append([]byte{0, 6}, lp([]byte("nobody/has/this"))...)))
			}
			if !selfCut {
				// the property does not ask for the offender to be closed, only that nobody else is
				// affected: give the broker a moment to react, then the attacker goes away
				deadline := time.Now().Add(150 * time.Millisecond)
				for time.Now().Before(deadline) {
					if _, err := readPkt(cl, 50*time.Millisecond); err != nil {
						if ne, isNet := err.(net.Error); isNet && ne.Timeout() {
							continue
						}
						break
					}
				}
			}
			a.cut = true
			cl.Close()
		}
		// expectations of this step
		if f != nil && st.Gone && st.A != "cut" {
			deadline := time.Now().Add(faultDeadline)
			for atomic.LoadInt32(&f.closed) == 0 && time.Now().Before(deadline) {
				time.Sleep(time.Millisecond)
			}
			if atomic.LoadInt32(&f.closed) == 0 {
				tag := "C16"
				if st.A == "bad" {
					tag = "C05"
				}
				return fmt.Sprintf("%s: the broker did not close the connection within %v", where, faultDeadline), tag
			}
		}
		if f != nil && st.Free && (st.A == "cut" || st.A == "edge" || st.A == "ping-halfclose" || st.Gone) && f.svc != 0 {
			if !waitStop(f.svc, faultDeadline) {
				n, first := libraryGoroutines()
				dd := fmt.Sprintf("%s: no open connection has stopped reading, but the teardown of %s did not finish within %v (%d library goroutines, e.g. %s)",
					where, st.C, faultDeadline, n-base, short(first, 300))
				if faultsOwn == "" || faultsOwn == "C16" {
					return dd, "C16"
				}
				if foreignD == "" {
					foreignD, foreignT = dd, "C16"
				}
			}
		}
		if st.Will == "never" {
			fr.never[st.C] = true
		}
		if f != nil && st.Will == "due" && st.Free && f.svc != 0 && (fr.wk == "small" || fr.wk == "mid") && !fr.closedS {
			if d := fr.awaitWill(st.C); d != "" {
				return fmt.Sprintf("%s: %s", where, d), "C16"
			}
		}
		if !fr.closedS {
			if d := fr.witness(); d != "" {
				return fmt.Sprintf("%s: %s", where, d), "C05"
			}
			if d := fr.willProblem(); d != "" {
				return fmt.Sprintf("%s: %s", where, d), "C16"
			}
			// bystanders: whatever happened to somebody else, a client that is still connected and reads is
			// still served once nobody who has stopped reading holds up a delivery (C05: only the offender is affected)
			if st.Free {
				for _, name := range []string{"P", "S"} {
					b := fr.cl[name]
					if b == nil || b.cut || atomic.LoadInt32(&b.closed) == 1 || atomic.LoadInt32(&b.reading) == 0 || name == st.C && st.Gone {
						continue
					}
					if d := fr.ping(b); d != "" {
						return fmt.Sprintf("%s: %s", where, d), "C05"
					}
				}
				if d := fr.probe(st.SelfSub); d != "" {
					return fmt.Sprintf("%s: %s", where, d), "C05"
				}
			}
		}
	}
	// the end of every sequence: whoever is left goes away, in the given order
	for _, name := range append(append([]string{}, sc.Rest...), "W1", "W2") {
		f := fr.cl[name]
		if f == nil {
			continue
		}
		f.cut = true
		f.c.Close()
	}
	for _, name := range []string{"P", "S", "W1", "W2"} {
		f := fr.cl[name]
		if f != nil && f.svc != 0 && !waitStop(f.svc, faultDeadline) {
			n, first := libraryGoroutines()
			return fmt.Sprintf("end: every client is gone, but the teardown of %s did not finish within %v (%d library goroutines, e.g. %s)", name, faultDeadline, n-base, short(first, 300)), "C16"
		}
	}
	// every connection is gone and torn down: nothing of them is left in the subscription tree or the session store
	if !fr.closedS {
		for _, t := range []string{"t", "u", "w/1", "w/will/P", "w/will/S", "extra/1", "w/s", "w/p/x"} {
			var subs []interface{}
			var qoss []byte
			if err := r.tp.Subscribers([]byte(t), 2, &subs, &qoss); err == nil && len(subs) > 0 {
				return fmt.Sprintf("end: every connection has been torn down, but %d subscription(s) matching %q are still in the subscription tree", len(subs), t), "C16"
			}
		}
		if n := r.sp.Count(); n != 0 {
			return fmt.Sprintf("end: every connection has been torn down (all with CleanSession 1), but the session store holds %d session(s)", n), "C16"
		}
	}
	if !fr.closedS {
		go func() { r.svr.Close(); close(closeDone) }()
		select {
		case <-closeDone:
		case <-time.After(faultDeadline):
			return fmt.Sprintf("end: Server.Close did not return within %v after all connections had ended", faultDeadline), "C16"
		}
	}
	// no goroutine of the library remains
	var n int
	var first string
	for k := 0; k < 400; k++ {
		n, first = libraryGoroutines()
		if n <= base {
			break
		}
		time.Sleep(5 * time.Millisecond)
	}
	if n > base {
		return fmt.Sprintf("end: %d goroutines of the library remain after all connections ended and Server.Close returned, e.g. %s", n-base, short(first, 300)), "C16"
	}
	return "", ""
}

// ringPointerRace forces the one adverse interleaving of a delivery with the teardown of its target:
// the innocent publisher's processor is held inside the victim's writeMessage right after the test of
// the ring pointer (yield site wm.checked), the victim is cut and torn down completely, then the
// publisher goes on. The publisher's connection must survive (C05: only the offender is affected).
func ringPointerRace() string {
	r := newBrokerRun("mockSuccess", 2)
	fr := &faultRun{r: r, cl: map[string]*fClient{}, wills: map[string]int{}, never: map[string]bool{}}
	defer func() {
		service.VerifYieldFn = nil
		for _, f := range fr.cl {
			f.cut = true
			f.c.Close()
		}
		r.cleanup()
	}()
	victim, e := fr.connect("S", "racevictim", "r")
	if e != "" {
		return e
	}
	innocent, e := fr.connect("P", "raceinnocent")
	if e != "" {
		return e
	}
	// a bystander subscribed to the same topic after the victim: it comes later in the fan-out
	bystander, e := fr.connect("W2", "racebystander", "r")
	if e != "" {
		return e
	}
	arrived := make(chan struct{}, 1)
	release := make(chan struct{})
	var armed int32 = 1
	service.VerifYieldFn = func(obj int64, site string) {
		if site == "wm.checked" && obj == -int64(victim.svc) && atomic.CompareAndSwapInt32(&armed, 1, 0) {
			arrived <- struct{}{}
			<-release
		}
	}
	fr.write(innocent, pkt(0x30, append(lp([]byte("r")), []byte("race")...)), time.Second)
	select {
	case <-arrived:
	case <-time.After(3 * time.Second):
		return "INFRA the delivery never reached the yield point wm.checked"
	}
	victim.cut = true
	victim.c.Close()
	if !waitStop(victim.svc, faultDeadline) {
		close(release)
		return "the victim's teardown did not finish while a delivery to it was in progress"
	}
	close(release)
	// the failed delivery to the victim affects nobody else: the bystander gets the message
	select {
	case p := <-bystander.rx:
		if p.first>>4 != 3 || !bytes.HasSuffix(p.body, []byte("race")) {
			return fmt.Sprintf("the bystander subscriber received %x instead of the published message", p.first)
		}
	case <-time.After(3 * time.Second):
		return "a subscriber that comes after a dying one in the fan-out missed the message (the delivery error of one connection stopped the fan-out)"
	}
	// the innocent publisher must still be served
	for len(innocent.rx) > 0 {
		<-innocent.rx
	}
	if err := fr.write(innocent, []byte{0xc0, 0}, time.Second); err != nil {
		return "the innocent publisher's connection was closed: " + err.Error()
	}
	select {
	case p := <-innocent.rx:
		if p.first != 0xd0 {
			return fmt.Sprintf("the innocent publisher received %x instead of PINGRESP", p.first)
		}
	case <-time.After(3 * time.Second):
		return fmt.Sprintf("a publisher whose delivery raced with the teardown of the subscriber is no longer served (connection closed by the broker: %v)", atomic.LoadInt32(&innocent.closed) == 1)
	}
	return ""
}

func cmdRace(a Args) {
	res := newResult()
	n := a.num("n", 20)
	for i := 0; i < n; i++ {
		res.Evaluations++
		res.Steps += 5
		d := ringPointerRace()
		if strings.HasPrefix(d, "INFRA") {
			res.Notes = append(res.Notes, d)
			res.Counts["infra"]++
		} else if d != "" {
			res.mismatch(Mismatch{What: d, Tag: "C05", Replay: map[string]interface{}{"schedule": []string{"I: PUBLISH r", "I.processor: V.writeMessage reaches wm.checked (held)", "V: cut", "V: teardown finished", "I.processor: released", "I: PINGREQ"}}})
		}
	}
	res.Samples = append(res.Samples, []string{"I: PUBLISH r", "I.processor held at wm.checked in V.writeMessage", "V cut, teardown finished", "release", "I: PINGREQ -> PINGRESP"})
	res.emit()
}

func cmdFaults(a Args) {
	res := newResult()
	maxKeptMismatches = 40
	own := a.str("own", "")
	faultsOwn = own
	lifeOpen(a.str("life", ""), a.num("lifeevery", 1))
	err := readLines(a, func(line []byte) error {
		var sc fScenario
		if err := json.Unmarshal(line, &sc); err != nil {
			return err
		}
		if res.Counts["confirmed"] >= 3 {
			res.Counts["skipped_after_violation"]++
			return nil
		}
		res.Evaluations++
		res.Steps += len(sc.H)
		d, tag := runFaults(&sc)
		if d != "" && tag != "INFRA" && own != "" && tag != own {
			// an observable of another property: recorded (its own check deals with it), not reproduced, no early stop
			res.Counts["foreign"]++
			if res.Counts["foreign"] > 25 {
				res.Counts["skipped_after_violation"]++
				return nil
			}
			res.mismatch(Mismatch{What: d, Tag: tag})
			return nil
		}
		if d != "" && tag != "INFRA" {
			// liveness observations must reproduce: once more in up to three further runs of the same sequence
			// (a defect that needs a delivery to fall into a short window does not show every time; an observation
			// that is an artefact of machine load does not show twice in four runs with these deadlines)
			again := false
			for k := 0; k < 3 && !again; k++ {
				if d2, t2 := runFaults(&sc); d2 != "" && t2 != "INFRA" {
					again = true
				}
			}
			if !again {
				res.Notes = append(res.Notes, "unreproduced: "+d)
				res.Counts["unreproduced"]++
				d = ""
			}
		}
		if tag == "INFRA" && d != "" {
			res.Notes = append(res.Notes, d)
			res.Counts["infra"]++
			d = ""
		}
		if d != "" {
			res.Counts["confirmed"]++
			var acts []string
			for _, s := range sc.H {
				acts = append(acts, s.A+"("+s.C+")")
			}
			res.mismatch(Mismatch{What: d, Tag: tag, Replay: map[string]interface{}{"scenario": acts, "rest": sc.Rest, "cross": len(sc.H) > 0 && sc.H[0].Cross}})
		}
		if len(res.Samples) < 2 && len(sc.H) >= 3 {
			var acts []string
			for _, s := range sc.H {
				acts = append(acts, s.A+"("+s.C+")")
			}
			res.Samples = append(res.Samples, acts)
		}
		return nil
	})
	if err != nil {
		fatal("faults: %v", err)
	}
	res.Counts["life_recordings"], res.Counts["life_events"] = lifeRec.close()
	res.emit()
}

func init() { commands["faults"] = cmdFaults; commands["race"] = cmdRace }
