package main

import (
	"encoding/json"
	"fmt"
	"sync/atomic"
	"time"

	"github.com/mdzio/go-mqtt/service"
)

// ---------------------------------------------------------------- C14 / C15 / C17: the ring's guards at byte granularity

type edgeCase struct {
	Side    string `json:"side"`
	C       int64  `json:"c"`
	Used    int    `json:"used"`
	N       int    `json:"n"`
	Waits   bool   `json:"waits"`
	Missing int    `json:"missing"`
	Waiter  string `json:"waiter"` // side X: the call that is about to wait when Close comes
	// side Y: the call of the other side that commits what the waiter is about to wait for
	Committer string `json:"committer"`
}

// edgeGate: when armed, the next process that reaches a ".wait" yield site (it has tested the done flag under the mutex and
// is about to call Wait) is held there until released
var edgeGate struct {
	armed   int32
	reached chan struct{}
	release chan struct{}
}

var edgeParked int32

func edgeYield(id int64, site string) {
	if site == "wfs.wait" || site == "rw.wait" {
		atomic.StoreInt32(&edgeParked, 1)
	}
	if (site == "wfs.wait" || site == "rw.wait" || site == "rp.wait" || site == "r.wait") && atomic.CompareAndSwapInt32(&edgeGate.armed, 1, 0) {
		close(edgeGate.reached)
		<-edgeGate.release
	}
}

// runCloseEdge: Close while a waiter sits between its test of the done flag and its Wait
func runCloseEdge(c *edgeCase, size int64, bf *service.VerifBuffer, where string) (string, string) {
	edgeGate.reached = make(chan struct{})
	edgeGate.release = make(chan struct{})
	atomic.StoreInt32(&edgeGate.armed, 1)
	waiterDone := make(chan error, 1)
	go func() {
		var err error
		switch c.Waiter {
		case "Read":
			_, err = bf.Read(make([]byte, 16))
		case "ReadPeek":
			_, err = bf.ReadPeek(16)
		case "ReadWait":
			_, err = bf.ReadWait(16)
		case "Write":
			_, err = bf.Write(make([]byte, 16))
		default:
			_, _, err = bf.WriteWait(16)
		}
		waiterDone <- err
	}()
	select {
	case <-edgeGate.reached:
	case <-time.After(3 * time.Second):
		atomic.StoreInt32(&edgeGate.armed, 0)
		select {
		case err := <-waiterDone:
			// the call came back instead of waiting: a producer that goes on in a full ring overwrites bytes the consumer
			// has not committed, a consumer that goes on in an empty ring hands out bytes nobody produced
			return fmt.Sprintf("%s: %s returned (err=%v) where the specification waits for the other side", where, c.Waiter, err), "C14"
		default:
		}
		return fmt.Sprintf("INFRA %s: %s did not reach its wait", where, c.Waiter), "INFRA"
	}
	closed := make(chan struct{})
	go func() { bf.Close(); close(closed) }()
	select {
	case <-closed:
		close(edgeGate.release)
		return fmt.Sprintf("%s: Close returned while a %s was between its test of the closed flag and its Wait, holding the condition's mutex: Close does not take that mutex, its broadcast cannot reach this waiter (lost wake-up)", where, c.Waiter), "C15"
	case <-time.After(40 * time.Millisecond):
	}
	close(edgeGate.release)
	select {
	case <-closed:
	case <-time.After(3 * time.Second):
		return fmt.Sprintf("%s: BLOCKED: Close does not return within 3 s after the waiting %s has gone into Wait", where, c.Waiter), "C15"
	}
	select {
	case err := <-waiterDone:
		if err == nil {
			return fmt.Sprintf("%s: a %s that waited when the ring was closed returned without end-of-stream", where, c.Waiter), "C15"
		}
	case <-time.After(3 * time.Second):
		return fmt.Sprintf("%s: BLOCKED: the ring was closed while a %s was about to wait; it was never woken (lost wake-up)", where, c.Waiter), "C15"
	}
	return "", ""
}

// runWakeEdge: the other side commits what a waiter needs while the waiter sits between its test of the cursor and its Wait
func runWakeEdge(c *edgeCase, size int64, bf *service.VerifBuffer, where string, produced, consumed int64) (string, string) {
	edgeGate.reached = make(chan struct{})
	edgeGate.release = make(chan struct{})
	atomic.StoreInt32(&edgeGate.armed, 1)
	waiterDone := make(chan error, 1)
	data := make([]byte, 16)
	fillStream(data, produced)
	go func() {
		var err error
		switch c.Waiter {
		case "Read":
			_, err = bf.Read(make([]byte, 16))
		case "ReadPeek":
			_, err = bf.ReadPeek(16)
		case "ReadWait":
			_, err = bf.ReadWait(16)
		case "Write":
			_, err = bf.Write(data)
		default:
			_, _, err = bf.WriteWait(16)
		}
		waiterDone <- err
	}()
	select {
	case <-edgeGate.reached:
	case <-time.After(3 * time.Second):
		atomic.StoreInt32(&edgeGate.armed, 0)
		select {
		case err := <-waiterDone:
			// the call came back instead of waiting: a producer that goes on in a full ring overwrites bytes the consumer
			// has not committed, a consumer that goes on in an empty ring hands out bytes nobody produced
			return fmt.Sprintf("%s: %s returned (err=%v) where the specification waits for the other side", where, c.Waiter, err), "C14"
		default:
		}
		return fmt.Sprintf("INFRA %s: %s did not reach its wait", where, c.Waiter), "INFRA"
	}
	committed := make(chan error, 1)
	go func() {
		var err error
		switch c.Committer {
		case "Write":
			_, err = bf.Write(data)
		case "WriteCommit":
			var p []byte
			if p, _, err = bf.WriteWait(16); err == nil {
				copy(p, data)
				_, err = bf.WriteCommit(16)
			}
		case "ReadCommit":
			if _, err = bf.ReadPeek(16); err == nil {
				_, err = bf.ReadCommit(16)
			}
		default:
			_, err = bf.Read(make([]byte, 16))
		}
		committed <- err
	}()
	// correct code: the committer has stored its cursor and waits for the mutex the held waiter owns; a committer that
	// does not take the mutex is through by now - either way the waiter is let go on into its Wait
	time.Sleep(40 * time.Millisecond)
	close(edgeGate.release)
	select {
	case err := <-committed:
		if err != nil {
			return fmt.Sprintf("INFRA %s: committing %s failed: %v", where, c.Committer, err), "INFRA"
		}
	case <-time.After(3 * time.Second):
		return fmt.Sprintf("%s: BLOCKED: a %s of 16 bytes does not return within 3 s after the %s that was about to wait went into Wait", where, c.Committer, c.Waiter), "C15"
	}
	select {
	case err := <-waiterDone:
		if err != nil {
			return fmt.Sprintf("%s: a %s that was about to wait when a %s committed 16 bytes returned %v", where, c.Waiter, c.Committer, err), "C15"
		}
	case <-time.After(3 * time.Second):
		return fmt.Sprintf("%s: BLOCKED: a %s committed 16 bytes while a %s was between its test of the cursor and its Wait (holding the condition's mutex); "+
			"the %s still waits 3 s later: the broadcast did not reach it (lost wake-up)", where, c.Committer, c.Waiter, c.Waiter), "C15"
	}
	return "", ""
}

// runEdge puts a real buffer into the state of the case, makes the call and compares with the specification.
func runEdge(c *edgeCase, size int64) (d string, tag string) {
	bf, err := service.VerifNewBuffer(size)
	if err != nil {
		return "INFRA newBuffer: " + err.Error(), "INFRA"
	}
	// every case ends with a Close (a second one, for the Close cases): it has to return whatever happened before
	defer func() {
		ch := make(chan struct{})
		go func() { bf.Close(); close(ch) }()
		select {
		case <-ch:
		case <-time.After(3 * time.Second):
			if d == "" {
				d, tag = fmt.Sprintf("ring of %d bytes (case %s/%s n=%d): BLOCKED: a final Close does not return within 3 s (a mutex of the buffer was left locked)", size, c.Side, c.Waiter, c.N), "C15"
			}
		}
	}()
	var produced, consumed int64
	write := func(n int) error {
		b := make([]byte, n)
		fillStream(b, produced)
		m, err := bf.Write(b)
		produced += int64(m)
		return err
	}
	read := func(n int) (string, error) {
		p, err := bf.ReadPeek(n)
		if err != nil {
			return "", err
		}
		if len(p) > n {
			p = p[:n]
		}
		bad := ""
		if !checkStream(p, consumed) {
			bad = fmt.Sprintf("bytes at stream offset %d are not the bytes that were written there", consumed)
		}
		m, err := bf.ReadCommit(len(p))
		consumed += int64(m)
		return bad, err
	}
	// set-up calls always have the room / the data they need: one that does not return is itself an observation
	guarded := func(what string, f func() error) (string, string) {
		ch := make(chan error, 1)
		go func() { ch <- f() }()
		select {
		case err := <-ch:
			if err != nil {
				return "INFRA set-up " + what + ": " + err.Error(), "INFRA"
			}
			return "", ""
		case <-time.After(3 * time.Second):
			p, q := bf.VerifCursors()
			return fmt.Sprintf("ring of %d bytes, cursors (%d,%d): BLOCKED: a %s for which there is enough room/data does not return within 3 s", size, p, q, what), "C15"
		}
	}
	plainWrite, plainRead := write, read
	var setupD, setupT string
	write = func(n int) error {
		if setupD != "" {
			return fmt.Errorf("abandoned")
		}
		d, t := guarded(fmt.Sprintf("Write of %d bytes", n), func() error { return plainWrite(n) })
		if d != "" {
			setupD, setupT = d, t
			return fmt.Errorf("blocked")
		}
		return nil
	}
	read = func(n int) (string, error) {
		if setupD != "" {
			return "", fmt.Errorf("abandoned")
		}
		bad := ""
		d, t := guarded(fmt.Sprintf("ReadPeek/ReadCommit of %d bytes", n), func() error {
			var err error
			bad, err = plainRead(n)
			return err
		})
		if d != "" {
			setupD, setupT = d, t
			return "", fmt.Errorf("blocked")
		}
		return bad, nil
	}
	// consumer cursor = c: write and read c bytes in blocks
	for consumed < c.C {
		n := int(c.C - consumed)
		if n > 4096 {
			n = 4096
		}
		if err := write(n); err != nil {
			if setupD != "" {
				return setupD, setupT
			}
			return "INFRA set-up write: " + err.Error(), "INFRA"
		}
		if bad, err := read(n); err != nil || bad != "" {
			if setupD != "" {
				return setupD, setupT
			}
			if bad != "" {
				return fmt.Sprintf("ring of %d bytes: %s", size, bad), "C14"
			}
			return fmt.Sprintf("INFRA set-up read: %v", err), "INFRA"
		}
	}
	for int(produced-consumed) < c.Used {
		n := c.Used - int(produced-consumed)
		if n > 4096 {
			n = 4096
		}
		if err := write(n); err != nil {
			if setupD != "" {
				return setupD, setupT
			}
			return "INFRA set-up fill: " + err.Error(), "INFRA"
		}
	}
	write, read = plainWrite, plainRead // the call under test and what follows are timed by the code below
	if p, q := bf.VerifCursors(); p != produced || q != consumed || q != c.C {
		return fmt.Sprintf("INFRA set-up cursors (%d,%d), wanted (%d,%d)", p, q, produced, c.C), "INFRA"
	}
	where := fmt.Sprintf("ring of %d bytes holding %d (consumer cursor %d)", size, c.Used, c.C)
	if c.Side == "X" {
		return runCloseEdge(c, size, bf, where)
	}
	if c.Side == "Y" {
		return runWakeEdge(c, size, bf, where, produced, consumed)
	}
	atomic.StoreInt32(&edgeParked, 0)
	done := make(chan string, 1)
	if c.Side == "P" {
		go func() {
			err := write(c.N)
			if err != nil {
				done <- "error " + err.Error()
			} else {
				done <- ""
			}
		}()
	} else {
		go func() {
			p, err := bf.ReadWait(c.N)
			switch {
			case err != nil:
				done <- "error " + err.Error()
			case len(p) != c.N:
				done <- fmt.Sprintf("ReadWait(%d) returned %d bytes", c.N, len(p))
			case !checkStream(p, consumed):
				done <- fmt.Sprintf("ReadWait(%d) returned bytes that are not the bytes written at stream offset %d", c.N, consumed)
			default:
				done <- ""
			}
		}()
	}
	what := fmt.Sprintf("Write of %d bytes", c.N)
	if c.Side == "C" {
		what = fmt.Sprintf("ReadWait(%d)", c.N)
	}
	if c.Waits {
		select {
		case r := <-done:
			if c.Side == "P" {
				return fmt.Sprintf("%s: a %s returned (%q) although only %d bytes are free: it took room the consumer has not released", where, what, r, int(size)-c.Used), "C14"
			}
			return fmt.Sprintf("%s: %s returned (%q) although only %d bytes have been written", where, what, r, c.Used), "C14"
		case <-time.After(120 * time.Millisecond):
		}
		if atomic.LoadInt32(&edgeParked) == 0 {
			return fmt.Sprintf("INFRA %s: %s neither returned nor reached its wait", where, what), "INFRA"
		}
		// the other side supplies exactly what is missing (it has the data / the room for that)
		if c.Side == "P" {
			bad := ""
			if d, t := guarded(fmt.Sprintf("ReadPeek/ReadCommit of %d byte(s) while a producer waits", c.Missing), func() error {
				var err error
				bad, err = read(c.Missing)
				return err
			}); d != "" {
				return d, t
			}
			if bad != "" {
				return fmt.Sprintf("%s: consumer reading %d byte(s) while a producer waits: %s", where, c.Missing, bad), "C14"
			}
		} else {
			if d, t := guarded(fmt.Sprintf("Write of %d byte(s) while a consumer waits", c.Missing), func() error { return write(c.Missing) }); d != "" {
				return d, t
			}
		}
	}
	select {
	case r := <-done:
		if r != "" {
			return fmt.Sprintf("%s: %s: %s", where, what, r), "C14"
		}
	case <-time.After(3 * time.Second):
		if c.Waits {
			return fmt.Sprintf("%s: BLOCKED: a %s still waits 3 s after the other side supplied the %d missing byte(s)", where, what, c.Missing), "C15"
		}
		return fmt.Sprintf("%s: BLOCKED: a %s does not return within 3 s although there is enough room/data", where, what), "C15"
	}
	if c.Side == "C" {
		m, err := bf.ReadCommit(c.N)
		consumed += int64(m)
		if err != nil {
			return fmt.Sprintf("%s: ReadCommit(%d) after ReadWait: %v", where, c.N, err), "C14"
		}
	}
	// whatever is in the ring now is the continuation of the stream
	for consumed < produced {
		n := int(produced - consumed)
		if n > 4096 {
			n = 4096
		}
		before := consumed
		bad := ""
		var err error
		if d, t := guarded(fmt.Sprintf("ReadPeek/ReadCommit of %d bytes that are in the ring", n), func() error {
			var e error
			bad, e = read(n)
			return e
		}); d != "" {
			return d, t
		}
		if consumed == before && bad == "" {
			return fmt.Sprintf("%s: after the %s, ReadPeek(%d) hands out nothing although %d bytes are in the ring", where, what, n, produced-consumed), "C14"
		}
		if err != nil {
			return fmt.Sprintf("%s: draining after the %s: %v", where, what, err), "C14"
		}
		if bad != "" {
			return fmt.Sprintf("%s: after the %s: %s", where, what, bad), "C14"
		}
	}
	return "", ""
}

func cmdRingEdge(a Args) {
	service.VerifYieldFn = edgeYield
	res := newResult()
	size := int64(a.num("size", 16384))
	err := readLines(a, func(line []byte) error {
		var c edgeCase
		if err := json.Unmarshal(line, &c); err != nil {
			return err
		}
		res.Evaluations++
		res.Steps++
		d, tag := runEdge(&c, size)
		if d != "" && tag == "C15" {
			// a liveness observation must reproduce
			if d2, _ := runEdge(&c, size); d2 == "" {
				res.Counts["unreproduced"]++
				d = ""
			}
		}
		if tag == "INFRA" && d != "" {
			res.Notes = append(res.Notes, d)
			res.Counts["infra"]++
			return nil
		}
		if d != "" {
			res.mismatch(Mismatch{What: d, Tag: tag, Replay: map[string]interface{}{"case": c, "size": size}})
		}
		if c.Waits {
			res.Counts["waiting_cases"]++
		}
		return nil
	})
	if err != nil {
		fatal("ringedge: %v", err)
	}
	res.emit()
}

func init() { commands["ringedge"] = cmdRingEdge }
