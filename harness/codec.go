package main

import (
	"bytes"
	"encoding/json"
	"fmt"
	"math/rand"
	"reflect"
	"sort"
	"strings"
	"unsafe"

	"github.com/mdzio/go-mqtt/message"
)

// ---------------------------------------------------------------- C03: reference codec cases

type seg struct {
	K string `json:"k"`
	V int    `json:"v"`
	N int    `json:"n"`
	S int    `json:"s"`
}

type caseFields struct {
	Ty    string `json:"ty"`
	Ver   int    `json:"ver"`
	Clean int    `json:"clean"`
	Will  int    `json:"will"`
	Wq    int    `json:"wq"`
	Wr    int    `json:"wr"`
	Wtl   int    `json:"wtl"`
	Wml   int    `json:"wml"`
	Ul    int    `json:"ul"`
	Pwl   int    `json:"pwl"`
	Ka    int    `json:"ka"`
	Cidl  int    `json:"cidl"`
	Sp    int    `json:"sp"`
	Code  int    `json:"code"`
	Dup   int    `json:"dup"`
	Q     int    `json:"q"`
	R     int    `json:"r"`
	Tl    int    `json:"tl"`
	ID    int    `json:"id"`
	Pl    int    `json:"pl"`
	K     int    `json:"k"`
	Pat   int    `json:"pat"`
	Tl1   int    `json:"tl1"`
	Dupf  int    `json:"dupf"`
}

// seed of the content of the i-th filter (1-based): with dupf the filters of a request repeat
func (k *caseFields) seedOf(i int) int {
	if k.Dupf == 1 {
		return 10 + i%2
	}
	return 10 + i
}

// length of the i-th filter (1-based) of a SUBSCRIBE / UNSUBSCRIBE case
func (k *caseFields) tlOf(i int) int {
	if i == 1 && k.Tl1 > 0 {
		return k.Tl1
	}
	return k.Tl
}

type codecCase struct {
	Case  caseFields  `json:"case"`
	Wire  []seg       `json:"wire"`
	Len   int         `json:"len"`
	Pad   int         `json:"pad"`  // > 0: the remaining length is padded by this many bytes (decode direction only)
	From  *caseFields `json:"from"` // != nil: decode WFrom, then set the fields of Case through the setters
	WFrom []seg       `json:"wfrom"`
	Auto  bool        `json:"auto"` // the packet identifier is left to the library
	// != nil: the filter list of a SUBSCRIBE / UNSUBSCRIBE (Base, wire form WBase) is edited with AddTopic / RemoveTopic
	Edit  *editCase `json:"edit"`
	Base  [][]int   `json:"base"`
	WBase []seg     `json:"wbase"`
	Final [][]int   `json:"final"`
}

type editCase struct {
	Ty  string          `json:"ty"`
	Dec bool            `json:"dec"`
	Ops [][]interface{} `json:"ops"`
}

const fillAlpha = "abcdefghijklmnopqrstuvwxyz0123456789"

// fillBytes expands a (length, seed) pair; different seeds give different content for every
// length >= 1 (the first byte depends on the seed only), and no content has wildcard or
// separator characters.
func fillBytes(n, s int) []byte {
	b := make([]byte, n)
	for i := range b {
		b[i] = fillAlpha[(s*11+i*7+i/36)%36]
	}
	return b
}

func expand(w []seg) ([]byte, []int) {
	var out []byte
	var bounds []int
	for _, s := range w {
		bounds = append(bounds, len(out))
		if s.K == "b" {
			out = append(out, byte(s.V))
		} else {
			out = append(out, fillBytes(s.N, s.S)...)
		}
	}
	bounds = append(bounds, len(out))
	return out, bounds
}

func subQos(pat, i int) byte {
	if pat == 3 {
		return byte(i % 3)
	}
	return byte(pat)
}

func subCode(pat, i int) byte {
	if pat == 3 {
		return []byte{0, 1, 2, 128}[i%4]
	}
	return byte(pat)
}

// build constructs the message through the public setters
func buildCase(c *codecCase) (message.Message, error) {
	k := &c.Case
	switch k.Ty {
	case "CONNECT":
		m := message.NewConnectMessage()
		if err := m.SetVersion(byte(k.Ver)); err != nil {
			return nil, err
		}
		m.SetCleanSession(k.Clean == 1)
		m.SetKeepAlive(uint16(k.Ka))
		if err := m.SetClientID(fillBytes(k.Cidl, 3)); err != nil {
			return nil, err
		}
		if k.Will == 1 {
			m.SetWillTopic(fillBytes(k.Wtl, 4))
			m.SetWillMessage(fillBytes(k.Wml, 5))
			if err := m.SetWillQos(byte(k.Wq)); err != nil {
				return nil, err
			}
			m.SetWillRetain(k.Wr == 1)
		}
		if k.Ul > 0 {
			m.SetUsername(fillBytes(k.Ul, 6))
		}
		if k.Pwl > 0 {
			m.SetPassword(fillBytes(k.Pwl, 7))
		}
		return m, nil
	case "CONNACK":
		m := message.NewConnackMessage()
		m.SetSessionPresent(k.Sp == 1)
		m.SetReturnCode(message.ConnackCode(k.Code))
		return m, nil
	case "PUBLISH":
		m := message.NewPublishMessage()
		if err := m.SetTopic(fillBytes(k.Tl, 1)); err != nil {
			return nil, err
		}
		m.SetPayload(fillBytes(k.Pl, 2))
		if err := m.SetQoS(byte(k.Q)); err != nil {
			return nil, err
		}
		m.SetDup(k.Dup == 1)
		m.SetRetain(k.R == 1)
		if k.Q > 0 {
			m.SetPacketID(uint16(k.ID))
		}
		return m, nil
	case "PUBACK", "PUBREC", "PUBREL", "PUBCOMP", "UNSUBACK":
		var m message.Message
		switch k.Ty {
		case "PUBACK":
			x := message.NewPubackMessage()
			if k.ID != 0 {
				x.SetPacketID(uint16(k.ID))
			}
			m = x
		case "PUBREC":
			x := message.NewPubrecMessage()
			if k.ID != 0 {
				x.SetPacketID(uint16(k.ID))
			}
			m = x
		case "PUBREL":
			x := message.NewPubrelMessage()
			if k.ID != 0 {
				x.SetPacketID(uint16(k.ID))
			}
			m = x
		case "PUBCOMP":
			x := message.NewPubcompMessage()
			if k.ID != 0 {
				x.SetPacketID(uint16(k.ID))
			}
			m = x
		default:
			x := message.NewUnsubackMessage()
			if k.ID != 0 {
				x.SetPacketID(uint16(k.ID))
			}
			m = x
		}
		return m, nil
	case "SUBSCRIBE":
		m := message.NewSubscribeMessage()
		m.SetPacketID(uint16(k.ID))
		for i := 1; i <= k.K; i++ {
			if err := m.AddTopic(fillBytes(k.tlOf(i), k.seedOf(i)), subQos(k.Pat, i)); err != nil {
				return nil, err
			}
		}
		return m, nil
	case "UNSUBSCRIBE":
		m := message.NewUnsubscribeMessage()
		m.SetPacketID(uint16(k.ID))
		for i := 1; i <= k.K; i++ {
			m.AddTopic(fillBytes(k.tlOf(i), k.seedOf(i)))
		}
		return m, nil
	case "SUBACK":
		m := message.NewSubackMessage()
		m.SetPacketID(uint16(k.ID))
		codes := make([]byte, k.K)
		for i := 1; i <= k.K; i++ {
			codes[i-1] = subCode(k.Pat, i)
		}
		if err := m.AddReturnCodes(codes); err != nil {
			return nil, err
		}
		return m, nil
	case "PINGREQ":
		return message.NewPingreqMessage(), nil
	case "PINGRESP":
		return message.NewPingrespMessage(), nil
	case "DISCONNECT":
		return message.NewDisconnectMessage(), nil
	}
	return nil, fmt.Errorf("unknown case type %s", k.Ty)
}

var typeByName = map[string]message.Type{"CONNECT": message.CONNECT, "CONNACK": message.CONNACK, "PUBLISH": message.PUBLISH,
	"PUBACK": message.PUBACK, "PUBREC": message.PUBREC, "PUBREL": message.PUBREL, "PUBCOMP": message.PUBCOMP,
	"SUBSCRIBE": message.SUBSCRIBE, "SUBACK": message.SUBACK, "UNSUBSCRIBE": message.UNSUBSCRIBE, "UNSUBACK": message.UNSUBACK,
	"PINGREQ": message.PINGREQ, "PINGRESP": message.PINGRESP, "DISCONNECT": message.DISCONNECT}

// fieldsOf renders the fields of a decoded message for comparison with the case
func fieldsEqual(c *codecCase, m message.Message) string {
	k := &c.Case
	eq := func(name string, got, want interface{}) string {
		if !reflect.DeepEqual(got, want) {
			g, w := fmt.Sprint(got), fmt.Sprint(want)
			return fmt.Sprintf("%s = %s, want %s", name, short(g, 40), short(w, 40))
		}
		return ""
	}
	b2 := func(b []byte) []byte {
		if len(b) == 0 {
			return []byte{}
		}
		return b
	}
	var ds []string
	add := func(s string) {
		if s != "" {
			ds = append(ds, s)
		}
	}
	switch x := m.(type) {
	case *message.ConnectMessage:
		add(eq("Version", int(x.Version()), k.Ver))
		add(eq("CleanSession", x.CleanSession(), k.Clean == 1))
		add(eq("KeepAlive", int(x.KeepAlive()), k.Ka))
		add(eq("ClientID", b2(x.ClientID()), fillBytes(k.Cidl, 3)))
		add(eq("WillFlag", x.WillFlag(), k.Will == 1))
		if k.Will == 1 {
			add(eq("WillQos", int(x.WillQos()), k.Wq))
			add(eq("WillRetain", x.WillRetain(), k.Wr == 1))
			add(eq("WillTopic", b2(x.WillTopic()), fillBytes(k.Wtl, 4)))
			add(eq("WillMessage", b2(x.WillMessage()), fillBytes(k.Wml, 5)))
		}
		add(eq("UsernameFlag", x.UsernameFlag(), k.Ul > 0))
		add(eq("PasswordFlag", x.PasswordFlag(), k.Pwl > 0))
		add(eq("Username", b2(x.Username()), fillBytes(k.Ul, 6)))
		add(eq("Password", b2(x.Password()), fillBytes(k.Pwl, 7)))
	case *message.ConnackMessage:
		add(eq("SessionPresent", x.SessionPresent(), k.Sp == 1))
		add(eq("ReturnCode", int(x.ReturnCode()), k.Code))
	case *message.PublishMessage:
		add(eq("Topic", b2(x.Topic()), fillBytes(k.Tl, 1)))
		add(eq("Payload", b2(x.Payload()), fillBytes(k.Pl, 2)))
		add(eq("QoS", int(x.QoS()), k.Q))
		add(eq("Dup", x.Dup(), k.Dup == 1))
		add(eq("Retain", x.Retain(), k.R == 1))
		if k.Q > 0 {
			add(eq("PacketID", int(x.PacketID()), k.ID))
		}
	case *message.SubscribeMessage:
		add(eq("PacketID", int(x.PacketID()), k.ID))
		add(eq("len(Topics)", len(x.Topics()), k.K))
		for i := 1; i <= k.K && i <= len(x.Topics()); i++ {
			add(eq(fmt.Sprintf("Topics[%d]", i-1), b2(x.Topics()[i-1]), fillBytes(k.tlOf(i), k.seedOf(i))))
			add(eq(fmt.Sprintf("Qos[%d]", i-1), x.Qos()[i-1], subQos(k.Pat, i)))
		}
	case *message.UnsubscribeMessage:
		add(eq("PacketID", int(x.PacketID()), k.ID))
		add(eq("len(Topics)", len(x.Topics()), k.K))
		for i := 1; i <= k.K && i <= len(x.Topics()); i++ {
			add(eq(fmt.Sprintf("Topics[%d]", i-1), b2(x.Topics()[i-1]), fillBytes(k.tlOf(i), k.seedOf(i))))
		}
	case *message.SubackMessage:
		add(eq("PacketID", int(x.PacketID()), k.ID))
		add(eq("len(ReturnCodes)", len(x.ReturnCodes()), k.K))
		for i := 1; i <= k.K && i <= len(x.ReturnCodes()); i++ {
			add(eq(fmt.Sprintf("ReturnCodes[%d]", i-1), x.ReturnCodes()[i-1], subCode(k.Pat, i)))
		}
	default:
		if k.ID != 0 {
			add(eq("PacketID", int(m.PacketID()), k.ID))
		}
	}
	if len(ds) > 3 {
		ds = ds[:3]
	}
	return strings.Join(ds, "; ")
}

func codecCheck(c *codecCase, res *Result) {
	wire, _ := expand(c.Wire)
	desc := func() string {
		j, _ := json.Marshal(c.Case)
		return c.Case.Ty + " " + string(j)
	}
	kind := func() string {
		k := c.Case
		switch k.Ty {
		case "PUBLISH":
			return fmt.Sprintf("PUBLISH q=%d pl=%d tl=%d", k.Q, clsLen(k.Pl), clsLen(k.Tl))
		case "SUBSCRIBE", "UNSUBSCRIBE", "SUBACK":
			return fmt.Sprintf("%s k=%d", k.Ty, k.K)
		}
		return k.Ty
	}
	fail := func(what string) {
		res.mismatch(Mismatch{What: kind() + ": " + what, Tag: "C03", Replay: map[string]interface{}{"case": c.Case, "len": c.Len}})
	}
	// a well-formed packet that is rejected or misread is (also) the decoder property's observable
	failDec := func(what string) {
		res.mismatch(Mismatch{What: kind() + ": " + what, Tag: "C04", Replay: map[string]interface{}{"case": c.Case, "len": c.Len}})
	}
	defer func() {
		if r := recover(); r != nil {
			fail(fmt.Sprintf("panic: %v", r))
		}
	}()
	if len(wire) != c.Len {
		fatal("harness: expansion of %s has %d bytes, specification says %d", desc(), len(wire), c.Len)
	}
	if c.Edit != nil {
		editCheck(c, wire, res)
		return
	}
	if c.Pad > 0 {
		padCheck(c, wire, res, kind())
		return
	}
	if c.From != nil {
		modCheck(c, wire, res, kind())
		return
	}
	var n int
	var err error
	// a request that repeats a filter cannot be built through the setters (AddTopic replaces): decode direction only
	if c.Case.Dupf != 1 {
		if d := encodeDirection(c, wire, res); d != "" {
			fail(d)
			return
		}
	}
	if _, isAck := map[string]bool{"PUBACK": true, "PUBREC": true, "PUBREL": true, "PUBCOMP": true, "UNSUBACK": true}[c.Case.Ty]; isAck && c.Case.ID == 0 {
		return // identifier never set: encode direction only (no peer may send this packet)
	}
	// decode the reference bytes (capacity = length)
	dec, _ := typeByName[c.Case.Ty].New()
	in := append([]byte(nil), wire...)
	n, err = dec.Decode(in[:len(in):len(in)])
	if err != nil {
		failDec("Decode of the reference bytes failed: " + short(err.Error(), 70))
		return
	}
	if n != c.Len {
		failDec(fmt.Sprintf("Decode consumed %d bytes, reference %d", n, c.Len))
		return
	}
	if d := fieldsEqual(c, dec); d != "" {
		failDec("decoded fields differ: " + d)
		return
	}
	if l := dec.Len(); l != c.Len {
		fail(fmt.Sprintf("Len() of the decoded message = %d, reference %d", l, c.Len))
		return
	}
	buf2 := make([]byte, c.Len)
	n, err = dec.Encode(buf2)
	if err != nil || n != c.Len || !bytes.Equal(buf2, wire) {
		fail(fmt.Sprintf("re-encoding the decoded message does not reproduce the packet (n=%d err=%v)", n, err))
		return
	}
	// decode with further bytes behind the packet (next packet in the ring)
	dec2, _ := typeByName[c.Case.Ty].New()
	in2 := append(append([]byte(nil), wire...), 0x30, 0x03, 0x00)
	n, err = dec2.Decode(in2)
	if err != nil || n != c.Len {
		fail(fmt.Sprintf("Decode with trailing bytes: n=%d err=%v, reference n=%d", n, err, c.Len))
		return
	}
	if l := dec2.Len(); l != c.Len {
		fail(fmt.Sprintf("Len() after decoding a slice with trailing bytes = %d, the packet has %d", l, c.Len))
		return
	}
	buf3 := make([]byte, c.Len+8)
	n, err = dec2.Encode(buf3)
	if err != nil || n != c.Len || !bytes.Equal(buf3[:n], wire) {
		fail(fmt.Sprintf("re-encoding after decoding a slice with trailing bytes gives %d bytes (err=%v), the packet has %d", n, err, c.Len))
		return
	}
}

func encodeDirection(c *codecCase, wire []byte, res *Result) string {
	m, err := buildCase(c)
	if err != nil {
		return "cannot be built through the setters: " + err.Error()
	}
	res.Steps++
	if l := m.Len(); l != c.Len {
		return fmt.Sprintf("Len() = %d, reference %d", l, c.Len)
	}
	buf := make([]byte, c.Len)
	n, err := m.Encode(buf)
	if err != nil {
		return "Encode error: " + short(err.Error(), 60)
	}
	if n != c.Len {
		return fmt.Sprintf("Encode returned %d, reference %d", n, c.Len)
	}
	if !bytes.Equal(buf, wire) {
		i := 0
		for i < len(buf) && buf[i] == wire[i] {
			i++
		}
		return fmt.Sprintf("Encode bytes differ from the reference at offset %d (got %#x, want %#x)", i, buf[i], wire[i])
	}
	// the caller's buffer is the caller's: it is used for something else now, and the message is encoded once more
	// (what Encode writes are the message's fields, not what some earlier destination happens to hold)
	for i := range buf {
		buf[i] = 0x5a
	}
	// the destination is rarely fresh memory (the broker encodes straight into a ring buffer that has been used
	// before): Encode must write every one of its Len() bytes
	dirty := bytes.Repeat([]byte{0xa5}, c.Len+4)
	n, err = m.Encode(dirty)
	if err != nil || n != c.Len || !bytes.Equal(dirty[:n], wire) {
		i := 0
		for i < n && i < len(wire) && dirty[i] == wire[i] {
			i++
		}
		return fmt.Sprintf("Encode into a buffer that held other bytes before (0xa5...) leaves byte %d of the packet unwritten or wrong (n=%d err=%v)", i, n, err)
	}
	if !bytes.Equal(dirty[n:], []byte{0xa5, 0xa5, 0xa5, 0xa5}) {
		return "Encode writes behind the Len() bytes of the packet"
	}
	// a buffer one byte too small must be refused, not overrun
	if c.Len > 2 {
		small := make([]byte, c.Len-1)
		if _, err := m.Encode(small); err == nil {
			return "Encode into a buffer one byte too small succeeded"
		}
	}
	return ""
}

// padCheck: the reference packet with a non-minimal remaining length. A decoder may refuse it; if it accepts it, byte
// count and fields are those of the packet and re-encoding reproduces the bytes; it never panics.
func padCheck(c *codecCase, wire []byte, res *Result, kind string) {
	rep := map[string]interface{}{"case": c.Case, "pad": c.Pad, "bytes": fmt.Sprintf("%x", wire[:minInt(len(wire), 24)])}
	res.Steps++
	dec, _ := typeByName[c.Case.Ty].New()
	in := append([]byte(nil), wire...)
	var n int
	var err error
	func() {
		defer func() {
			if r := recover(); r != nil {
				res.mismatch(Mismatch{What: fmt.Sprintf("%s, remaining length padded by %d byte(s): Decode panics: %v", kind, c.Pad, r), Tag: "C04", Replay: rep})
				n = -1
			}
		}()
		n, err = dec.Decode(in[:len(in):len(in)])
	}()
	if n < 0 {
		return
	}
	if err != nil {
		res.Counts["padded_refused"]++
		return
	}
	res.Counts["padded_accepted"]++
	if n != len(wire) {
		res.mismatch(Mismatch{What: fmt.Sprintf("%s, remaining length padded by %d byte(s): Decode accepts the packet and consumes %d of its %d bytes", kind, c.Pad, n, len(wire)), Tag: "C04", Replay: rep})
		return
	}
	if d := fieldsEqual(c, dec); d != "" {
		res.mismatch(Mismatch{What: fmt.Sprintf("%s, remaining length padded by %d byte(s): Decode accepts the packet with wrong fields: %s", kind, c.Pad, d), Tag: "C04", Replay: rep})
		return
	}
	func() {
		defer func() {
			if r := recover(); r != nil {
				res.mismatch(Mismatch{What: fmt.Sprintf("%s, remaining length padded by %d byte(s): re-encoding the accepted packet panics: %v", kind, c.Pad, r), Tag: "C03", Replay: rep})
			}
		}()
		buf := make([]byte, len(wire)+8)
		m, err := dec.Encode(buf)
		if err != nil || !bytes.Equal(buf[:m], wire) {
			res.mismatch(Mismatch{What: fmt.Sprintf("%s, remaining length padded by %d byte(s): re-encoding the accepted packet does not reproduce its bytes (n=%d err=%v)", kind, c.Pad, m, err), Tag: "C03", Replay: rep})
		}
	}()
}

func minInt(a, b int) int {
	if a < b {
		return a
	}
	return b
}

// modCheck: decode the wire form of c.From, set the fields in which c.Case differs through the setters, encode:
// Len() and the bytes must be those of c.Case.
func modCheck(c *codecCase, wire []byte, res *Result, kind string) {
	from, to := c.From, &c.Case
	wfrom, _ := expand(c.WFrom)
	rep := map[string]interface{}{"decoded": from, "then_set": to, "auto_id": c.Auto}
	fail := func(what string) {
		res.mismatch(Mismatch{What: kind + " changed after Decode: " + what, Tag: "C03", Replay: rep})
	}
	defer func() {
		if r := recover(); r != nil {
			fail(fmt.Sprintf("panic: %v", r))
		}
	}()
	res.Steps++
	if !c.Auto {
		reuseCheck(c, wfrom, wire, res, kind, rep)
		cloneCheck(c, wfrom, wire, res, kind, rep)
	}
	dec, _ := typeByName[from.Ty].New()
	// as in the broker: the packet sits in a larger buffer, followed by other bytes
	in := append(append([]byte(nil), wfrom...), 0xc0, 0x00)
	if n, err := dec.Decode(in); err != nil || n != len(wfrom) {
		fail(fmt.Sprintf("Decode of the reference bytes: n=%d err=%v", n, err))
		return
	}
	var calls []string
	switch m := dec.(type) {
	case *message.PublishMessage:
		if from.Tl != to.Tl {
			m.SetTopic(fillBytes(to.Tl, 1))
			calls = append(calls, "SetTopic")
		}
		if from.Pl != to.Pl {
			m.SetPayload(fillBytes(to.Pl, 2))
			calls = append(calls, "SetPayload")
		}
		if from.Q != to.Q {
			m.SetQoS(byte(to.Q))
			calls = append(calls, fmt.Sprintf("SetQoS(%d)", to.Q))
		}
		if from.R != to.R {
			m.SetRetain(to.R == 1)
			calls = append(calls, "SetRetain")
		}
		if from.Dup != to.Dup {
			m.SetDup(to.Dup == 1)
			calls = append(calls, "SetDup")
		}
		if to.Q > 0 && !c.Auto && (from.Q == 0 || from.ID != to.ID) {
			m.SetPacketID(uint16(to.ID))
			calls = append(calls, "SetPacketID")
		}
	case *message.ConnectMessage:
		if from.Ver != to.Ver {
			m.SetVersion(byte(to.Ver))
			calls = append(calls, "SetVersion")
		}
		if from.Clean != to.Clean {
			m.SetCleanSession(to.Clean == 1)
			calls = append(calls, "SetCleanSession")
		}
		if from.Ka != to.Ka {
			m.SetKeepAlive(uint16(to.Ka))
			calls = append(calls, "SetKeepAlive")
		}
		if from.Cidl != to.Cidl {
			m.SetClientID(fillBytes(to.Cidl, 3))
			calls = append(calls, "SetClientID")
		}
		if from.Will != to.Will || from.Wq != to.Wq || from.Wr != to.Wr || from.Wtl != to.Wtl || from.Wml != to.Wml {
			if to.Will == 1 {
				m.SetWillTopic(fillBytes(to.Wtl, 4))
				m.SetWillMessage(fillBytes(to.Wml, 5))
				m.SetWillQos(byte(to.Wq))
				m.SetWillRetain(to.Wr == 1)
				calls = append(calls, "SetWill*")
			} else {
				m.SetWillTopic(nil)
				m.SetWillMessage(nil)
				m.SetWillQos(0)
				m.SetWillRetain(false)
				m.SetWillFlag(false)
				calls = append(calls, "clear will")
			}
		}
		if from.Ul != to.Ul || from.Pwl != to.Pwl {
			m.SetUsername(fillBytes(to.Ul, 6))
			m.SetPassword(fillBytes(to.Pwl, 7))
			calls = append(calls, "SetUsername/SetPassword")
		}
	case *message.SubscribeMessage:
		for i := from.K + 1; i <= to.K; i++ {
			m.AddTopic(fillBytes(to.tlOf(i), to.seedOf(i)), subQos(to.Pat, i))
			calls = append(calls, "AddTopic")
		}
		for i := from.K; i > to.K; i-- {
			m.RemoveTopic(fillBytes(from.tlOf(i), from.seedOf(i)))
			calls = append(calls, "RemoveTopic")
		}
	case *message.UnsubscribeMessage:
		for i := from.K + 1; i <= to.K; i++ {
			m.AddTopic(fillBytes(to.tlOf(i), to.seedOf(i)))
			calls = append(calls, "AddTopic")
		}
		for i := from.K; i > to.K; i-- {
			m.RemoveTopic(fillBytes(from.tlOf(i), from.seedOf(i)))
			calls = append(calls, "RemoveTopic")
		}
	default:
		fatal("harness: no modification defined for %s", from.Ty)
	}
	rep["calls"] = calls
	how := strings.Join(calls, ", ")
	if l := dec.Len(); l != c.Len {
		fail(fmt.Sprintf("after %s, Len() = %d, the packet with these fields has %d bytes", how, l, c.Len))
		return
	}
	buf := make([]byte, c.Len)
	n, err := dec.Encode(buf)
	if err != nil || n != c.Len {
		fail(fmt.Sprintf("after %s, Encode returns n=%d err=%v, the packet with these fields has %d bytes", how, n, err, c.Len))
		return
	}
	want := append([]byte(nil), wire...)
	if c.Auto {
		// the identifier the library chose: non-zero, at its place in the packet (after the topic)
		at := len(wire) - to.Pl - 2
		id := int(buf[at])<<8 | int(buf[at+1])
		if id == 0 || id != int(dec.PacketID()) {
			fail(fmt.Sprintf("after %s (identifier left to the library), the packet carries identifier %d, PacketID() = %d", how, id, dec.PacketID()))
			return
		}
		want[at], want[at+1] = buf[at], buf[at+1]
	}
	if !bytes.Equal(buf, want) {
		i := 0
		for i < len(buf) && buf[i] == want[i] {
			i++
		}
		fail(fmt.Sprintf("after %s, Encode bytes differ from the wire form of the new fields at offset %d (got %#x, want %#x)", how, i, buf[i], want[i]))
		return
	}
	// a field changed after the message has been encoded once: the next Encode writes the new value
	if pm, ok := dec.(*message.PublishMessage); ok && to.Q > 0 && !c.Auto {
		for i := range buf {
			buf[i] = 0x5a
		}
		pm.SetDup(to.Dup == 0)
		again := make([]byte, c.Len)
		n2, err2 := pm.Encode(again)
		want2 := append([]byte(nil), want...)
		want2[0] ^= 0x08
		if err2 != nil || n2 != c.Len || !bytes.Equal(again, want2) {
			fail(fmt.Sprintf("after %s, Encode, then SetDup(%v) and Encode again: the second packet is not the first with the DUP bit changed (n=%d err=%v first byte %#x)", how, to.Dup == 0, n2, err2, again[0]))
			return
		}
		pm.SetDup(to.Dup == 1)
		if n3, err3 := pm.Encode(buf); err3 != nil || n3 != c.Len || !bytes.Equal(buf, want) {
			fail(fmt.Sprintf("after %s, the DUP flag set and reset: Encode does not give the packet of the fields (n=%d err=%v)", how, n3, err3))
			return
		}
	}
	// and the result decodes to the new fields
	chk, _ := typeByName[to.Ty].New()
	if n, err := chk.Decode(buf[:len(buf):len(buf)]); err != nil || n != c.Len {
		fail(fmt.Sprintf("after %s, the encoded packet does not decode (n=%d err=%v)", how, n, err))
		return
	}
	if !c.Auto {
		if d := fieldsEqual(c, chk); d != "" {
			fail(fmt.Sprintf("after %s, the encoded packet decodes to other fields: %s", how, d))
		}
	}
}

// reuseCheck: a message object that has been used before (it holds the decoded fields of another packet) is decoded
// into again: what it holds afterwards are the fields of the second packet, all of them, and nothing of the first
// (Codec!Mods pairs; C04: "every well-formed packet is accepted with the correct field values").
func reuseCheck(c *codecCase, wfrom, wire []byte, res *Result, kind string, rep map[string]interface{}) {
	fail := func(what string) {
		res.mismatch(Mismatch{What: kind + " decoded into a message object that held another packet before: " + what, Tag: "C04", Replay: rep})
	}
	defer func() {
		if r := recover(); r != nil {
			fail(fmt.Sprintf("panic: %v", r))
		}
	}()
	m, _ := typeByName[c.From.Ty].New()
	if n, err := m.Decode(append([]byte(nil), wfrom...)); err != nil || n != len(wfrom) {
		return // the reference decode is judged elsewhere
	}
	in := append([]byte(nil), wire...)
	if n, err := m.Decode(in[:len(in):len(in)]); err != nil || n != len(wire) {
		fail(fmt.Sprintf("well-formed packet refused or miscounted (n=%d err=%v)", n, err))
		return
	}
	if d := fieldsEqual(c, m); d != "" {
		fail("fields of the second packet: " + d)
		return
	}
	if l := m.Len(); l != len(wire) {
		fail(fmt.Sprintf("Len() = %d, the packet has %d bytes", l, len(wire)))
		return
	}
	buf := make([]byte, len(wire))
	if n, err := m.Encode(buf); err != nil || !bytes.Equal(buf[:n], wire) {
		fail(fmt.Sprintf("re-encoding does not reproduce the second packet (n=%d err=%v)", n, err))
	}
}

// cloneCheck: PublishMessage.Clone yields an independent message with equal fields: a second clone (of another
// message), and changes to the original, leave the first clone's fields and encoding alone (C03).
func cloneCheck(c *codecCase, wfrom, wire []byte, res *Result, kind string, rep map[string]interface{}) {
	if c.From.Ty != "PUBLISH" {
		return
	}
	fail := func(what string) {
		res.mismatch(Mismatch{What: kind + " Clone: " + what, Tag: "C03", Replay: rep})
	}
	defer func() {
		if r := recover(); r != nil {
			fail(fmt.Sprintf("panic: %v", r))
		}
	}()
	a := message.NewPublishMessage()
	b := message.NewPublishMessage()
	if _, err := a.Decode(append([]byte(nil), wfrom...)); err != nil {
		return
	}
	if _, err := b.Decode(append([]byte(nil), wire...)); err != nil {
		return
	}
	ca, err1 := a.Clone()
	cb, err2 := b.Clone()
	if err1 != nil || err2 != nil {
		fail(fmt.Sprintf("Clone failed: %v %v", err1, err2))
		return
	}
	// the original of the first clone is changed and re-used
	a.SetTopic([]byte("zz"))
	a.SetPayload([]byte("changed"))
	for _, x := range []struct {
		m    *message.PublishMessage
		want []byte
		name string
	}{{ca, wfrom, "the first clone (after a second message was cloned and the original changed)"}, {cb, wire, "the second clone"}} {
		if l := x.m.Len(); l != len(x.want) {
			fail(fmt.Sprintf("%s: Len() = %d, the cloned message has %d bytes", x.name, l, len(x.want)))
			return
		}
		buf := make([]byte, len(x.want))
		if n, err := x.m.Encode(buf); err != nil || !bytes.Equal(buf[:n], x.want) {
			fail(fmt.Sprintf("%s: Encode does not give the bytes of the cloned message (n=%d err=%v)", x.name, n, err))
			return
		}
	}
	if d := fieldsEqual(c, cb); d != "" {
		fail("the second clone's fields: " + d)
	}
}

func clsLen(n int) int {
	switch {
	case n == 0:
		return 0
	case n < 128:
		return 1
	case n < 16384:
		return 2
	case n < 2097152:
		return 3
	}
	return 4
}

func cmdCodec(a Args) {
	res := newResult()
	maxKeptMismatches = 60
	err := readLines(a, func(line []byte) error {
		var c codecCase
		if err := json.Unmarshal(line, &c); err != nil {
			return err
		}
		res.Evaluations++
		codecCheck(&c, res)
		if len(res.Samples) < 2 && c.Len < 60 && c.Len > 8 {
			res.Samples = append(res.Samples, map[string]interface{}{"case": c.Case, "len": c.Len})
		}
		return nil
	})
	if err != nil {
		fatal("codec: %v", err)
	}
	res.emit()
}

// codecids: a long history of the process-wide packet-id counter. Every automatically numbered
// packet must carry a non-zero identifier and be well-formed (decodable, Len() consistent).
func cmdCodecIDs(a Args) {
	res := newResult()
	n := a.num("n", 131073)
	zero := 0
	// requests numbered one after the other can all be in flight together: any 32 consecutive automatic identifiers
	// must be pairwise distinct (C12)
	const window = 32
	var recent [window]uint16
	for i := 0; i < n; i++ {
		var m message.Message
		var ty string
		switch i % 4 {
		case 0:
			p := message.NewPublishMessage()
			p.SetTopic([]byte("t"))
			p.SetPayload([]byte("x"))
			p.SetQoS(1)
			m, ty = p, "PUBLISH"
		case 1:
			p := message.NewPublishMessage()
			p.SetTopic([]byte("t"))
			p.SetPayload([]byte("x"))
			p.SetQoS(2)
			m, ty = p, "PUBLISH"
		case 2:
			s := message.NewSubscribeMessage()
			s.AddTopic([]byte("t"), 0)
			m, ty = s, "SUBSCRIBE"
		default:
			u := message.NewUnsubscribeMessage()
			u.AddTopic([]byte("t"))
			m, ty = u, "UNSUBSCRIBE"
		}
		l := m.Len()
		buf := make([]byte, l)
		k, err := m.Encode(buf)
		res.Evaluations++
		bad := ""
		if err != nil {
			bad = "Encode error " + err.Error()
		} else if k != l {
			bad = fmt.Sprintf("Encode wrote %d bytes for Len() = %d", k, l)
		} else if m.PacketID() == 0 {
			bad = "automatically assigned packet identifier is 0"
		} else {
			d, _ := typeByName[ty].New()
			if kk, err := d.Decode(buf); err != nil || kk != l || d.PacketID() != m.PacketID() {
				bad = fmt.Sprintf("encoded packet does not decode (n=%d err=%v)", kk, err)
			}
		}
		if bad != "" {
			zero++
			res.mismatch(Mismatch{What: fmt.Sprintf("%s with automatic packet id: %s", ty, bad), Tag: "C03",
				Replay: map[string]interface{}{"encode_number": i + 1, "type": ty}})
		}
		if id := m.PacketID(); id != 0 {
			for j := 0; j < window && j < i; j++ {
				if recent[j] == id {
					res.mismatch(Mismatch{What: fmt.Sprintf("automatic packet identifier %d assigned to two of %d consecutively numbered requests (encode number %d)", id, window, i+1), Tag: "C12",
						Replay: map[string]interface{}{"encode_number": i + 1, "type": ty, "id": id}})
					break
				}
			}
			recent[i%window] = id
		}
	}
	res.Steps = n
	res.emit()
}

// ---------------------------------------------------------------- C04: decoders are total

var allTypes = []message.Type{message.CONNECT, message.CONNACK, message.PUBLISH, message.PUBACK, message.PUBREC, message.PUBREL,
	message.PUBCOMP, message.SUBSCRIBE, message.SUBACK, message.UNSUBSCRIBE, message.UNSUBACK, message.PINGREQ, message.PINGRESP, message.DISCONNECT}

const canary = 0xC9

// present x as a slice whose capacity equals its length, cut out of a larger canary array
func guarded(x []byte) []byte {
	arr := make([]byte, len(x)+64)
	for i := range arr {
		arr[i] = canary
	}
	copy(arr[32:], x)
	return arr[32 : 32+len(x) : 32+len(x)]
}

func inside(field, in []byte, n int) bool {
	if len(field) == 0 {
		return true
	}
	lo := uintptr(unsafe.Pointer(&in[0]))
	f0 := uintptr(unsafe.Pointer(&field[0]))
	return f0 >= lo && f0+uintptr(len(field)) <= lo+uintptr(n)
}

func fieldSlices(m message.Message) map[string][]byte {
	out := map[string][]byte{}
	switch x := m.(type) {
	case *message.ConnectMessage:
		out["ClientID"], out["WillTopic"], out["WillMessage"], out["Username"], out["Password"] = x.ClientID(), x.WillTopic(), x.WillMessage(), x.Username(), x.Password()
	case *message.PublishMessage:
		out["Topic"], out["Payload"] = x.Topic(), x.Payload()
	case *message.SubscribeMessage:
		for i, t := range x.Topics() {
			out[fmt.Sprintf("Topics[%d]", i)] = t
		}
	case *message.UnsubscribeMessage:
		for i, t := range x.Topics() {
			out[fmt.Sprintf("Topics[%d]", i)] = t
		}
	case *message.SubackMessage:
		out["ReturnCodes"] = x.ReturnCodes()
	}
	return out
}

type parseRec struct {
	X []int `json:"x"`
	P struct {
		Ok    bool  `json:"ok"`
		Ty    int   `json:"ty"`
		Len   int   `json:"len"`
		ID    int   `json:"id"`
		Q     int   `json:"q"`
		Dup   int   `json:"dup"`
		R     int   `json:"r"`
		Tl    int   `json:"tl"`
		Pl    int   `json:"pl"`
		Sp    int   `json:"sp"`
		Rc    int   `json:"rc"`
		K     int   `json:"k"`
		Codes []int `json:"codes"`
	} `json:"p"`
}

// decodeOne runs one decoder on one input under recover and checks totality.
// If exp != nil the reference parser says the input is a well-formed packet of this type.
func decodeOne(t message.Type, x []byte, exp *parseRec, res *Result, origin string) {
	in := guarded(x)
	m, _ := t.New()
	var n int
	var err error
	panicked := func() (p interface{}) {
		defer func() { p = recover() }()
		n, err = m.Decode(in)
		return nil
	}()
	res.Steps++
	rep := map[string]interface{}{"decoder": t.Name(), "input_hex": fmt.Sprintf("%x", short(string(x), 48)), "input_len": len(x), "origin": origin}
	cls := fmt.Sprintf("%s decoder, %s", t.Name(), origin)
	if panicked != nil {
		res.mismatch(Mismatch{What: fmt.Sprintf("%s: panic: %s", cls, short(fmt.Sprint(panicked), 70)), Tag: "C04", Replay: rep})
		return
	}
	if n > len(x) || n < 0 {
		res.mismatch(Mismatch{What: fmt.Sprintf("%s: Decode returned n=%d for %d input bytes", cls, n, len(x)), Tag: "C04", Replay: rep})
		return
	}
	if fl := frameLen(x); err == nil && fl >= 0 && n > fl {
		res.mismatch(Mismatch{What: fmt.Sprintf("%s: Decode returned n=%d, the packet its header announces has %d bytes (what follows belongs to the next packet)", cls, n, fl), Tag: "C04", Replay: rep})
		return
	}
	if err == nil {
		for name, f := range fieldSlices(m) {
			if !inside(f, in, n) {
				res.mismatch(Mismatch{What: fmt.Sprintf("%s: field %s lies outside the %d bytes of the decoded packet", cls, name, n), Tag: "C04", Replay: rep})
				return
			}
			if bytes.IndexByte(f, canary) >= 0 && bytes.IndexByte(x, canary) < 0 {
				res.mismatch(Mismatch{What: fmt.Sprintf("%s: field %s exposes bytes beyond the input", cls, name), Tag: "C04", Replay: rep})
				return
			}
		}
		res.Counts["accepted"]++
	}
	if exp != nil {
		p := exp.P
		if err != nil {
			res.mismatch(Mismatch{What: fmt.Sprintf("%s: well-formed packet rejected: %s", cls, short(err.Error(), 60)), Tag: "C04", Replay: rep})
			return
		}
		bad := ""
		if n != p.Len {
			bad = fmt.Sprintf("n=%d, reference %d", n, p.Len)
		} else if p.ID != 0 && int(m.PacketID()) != p.ID {
			bad = fmt.Sprintf("packet id %d, reference %d", m.PacketID(), p.ID)
		}
		switch v := m.(type) {
		case *message.PublishMessage:
			if int(v.QoS()) != p.Q || len(v.Topic()) != p.Tl || len(v.Payload()) != p.Pl || v.Dup() != (p.Dup == 1) || v.Retain() != (p.R == 1) {
				bad = "PUBLISH fields differ from the reference parser"
			}
		case *message.ConnackMessage:
			if v.SessionPresent() != (p.Sp == 1) || int(v.ReturnCode()) != p.Rc {
				bad = "CONNACK fields differ"
			}
		case *message.SubackMessage:
			if len(v.ReturnCodes()) != p.K {
				bad = "SUBACK return code count differs"
			}
		case *message.SubscribeMessage:
			if len(v.Topics()) != p.K {
				bad = "SUBSCRIBE topic count differs"
			}
		case *message.UnsubscribeMessage:
			if len(v.Topics()) != p.K {
				bad = "UNSUBSCRIBE topic count differs"
			}
		}
		if bad != "" {
			res.mismatch(Mismatch{What: fmt.Sprintf("%s: well-formed packet misread: %s", cls, bad), Tag: "C04", Replay: rep})
		}
		res.Counts["wellformed_checked"]++
	} else if err == nil {
		res.Counts["lenient_accepts"]++
	}
}

// frameLen: the length of the packet the fixed header at the start of x announces (-1: no complete header of at most four length bytes)
func frameLen(x []byte) int {
	rl, mult := 0, 1
	for i := 1; i <= 4; i++ {
		if i >= len(x) {
			return -1
		}
		rl += int(x[i]&0x7f) * mult
		mult *= 128
		if x[i] < 0x80 {
			return 1 + i + rl
		}
	}
	return -1
}

// verdictOf: does the decoder accept x, and how many bytes does it say the packet has
func verdictOf(t message.Type, x []byte) (ok bool, n int, fields string) {
	defer func() {
		if recover() != nil {
			ok, n = false, -1
		}
	}()
	m, _ := t.New()
	n, err := m.Decode(guarded(x))
	if err != nil {
		return false, 0, ""
	}
	var names []string
	fs := fieldSlices(m)
	for name := range fs {
		names = append(names, name)
	}
	sort.Strings(names)
	for _, name := range names {
		fields += fmt.Sprintf("%s=%x;", name, short(string(fs[name]), 40))
	}
	return true, n, fields
}

// behindThePacket: a decoder reads the packet its header announces and nothing else: for an input that is exactly one
// frame, verdict, byte count and fields do not depend on what follows it in the slice (the next packet, as in the
// broker's ring)
func behindThePacket(t message.Type, x []byte, res *Result, origin string) {
	if frameLen(x) != len(x) || len(x) > 4096 {
		return
	}
	ok0, n0, f0 := verdictOf(t, x)
	for _, tail := range [][]byte{{0x00, 0x02, 'h', 'i', 0xc0, 0x00}, {0x30, 0x0c, 0x00, 0x01, 't', 'p', 'a', 'y', 'l', 'o', 'a', 'd', '0', '1'}} {
		res.Steps++
		ok1, n1, f1 := verdictOf(t, append(append([]byte(nil), x...), tail...))
		if ok0 != ok1 || n0 != n1 || f0 != f1 {
			res.mismatch(Mismatch{What: fmt.Sprintf("%s decoder, %s: the result depends on the bytes behind the packet: alone accepted=%v n=%d, followed by % x accepted=%v n=%d%s",
				t.Name(), origin, ok0, n0, short(string(tail), 6), ok1, n1, map[bool]string{true: " (fields differ)", false: ""}[ok0 && ok1 && n0 == n1 && f0 != f1]),
				Tag: "C04", Replay: map[string]interface{}{"decoder": t.Name(), "input_hex": fmt.Sprintf("%x", short(string(x), 64)), "input_len": len(x), "tail_hex": fmt.Sprintf("%x", tail), "origin": origin}})
			return
		}
	}
}

// decodeparse: the reference parser's verdict for every short byte string over the structure alphabet
func cmdDecodeParse(a Args) {
	res := newResult()
	maxKeptMismatches = 60
	err := readLines(a, func(line []byte) error {
		var r parseRec
		if err := json.Unmarshal(line, &r); err != nil {
			return err
		}
		x := make([]byte, len(r.X))
		for i, v := range r.X {
			x[i] = byte(v)
		}
		res.Evaluations++
		for _, t := range allTypes {
			var exp *parseRec
			if r.P.Ok && int(t) == r.P.Ty {
				exp = &r
			}
			decodeOne(t, x, exp, res, fmt.Sprintf("%d-byte string", len(x)))
		}
		return nil
	})
	if err != nil {
		fatal("decodeparse: %v", err)
	}
	res.emit()
}

// decodemut: malformed variants of the reference cases, derived from the segment structure the
// specification printed: truncations at and next to every segment boundary, edits of every
// structure byte; plus seeded random byte strings.
func cmdDecodeMut(a Args) {
	res := newResult()
	maxKeptMismatches = 60
	seed := int64(a.num("seed", 1))
	rng := rand.New(rand.NewSource(seed))
	err := readLines(a, func(line []byte) error {
		var c codecCase
		if err := json.Unmarshal(line, &c); err != nil {
			return err
		}
		if c.Len > 70100 {
			return nil
		}
		wire, bounds := expand(c.Wire)
		own := typeByName[c.Case.Ty]
		res.Evaluations++
		run := func(x []byte, origin string) {
			decodeOne(own, x, nil, res, c.Case.Ty+" "+origin)
			behindThePacket(own, x, res, c.Case.Ty+" "+origin)
			if rng.Intn(8) == 0 {
				decodeOne(allTypes[rng.Intn(len(allTypes))], x, nil, res, c.Case.Ty+" "+origin)
			}
		}
		seen := map[int]bool{}
		hdr := 1
		for hdr < len(wire) && hdr < 5 && wire[hdr] >= 0x80 {
			hdr++
		}
		hdr++ // type byte + length bytes
		for _, b := range bounds {
			for _, cut := range []int{b - 1, b, b + 1} {
				if cut >= 0 && cut < len(wire) && !seen[cut] {
					seen[cut] = true
					run(wire[:cut], "truncated")
					// the same bytes with a header that announces exactly them: a complete frame whose content ends early
					if cut >= hdr && cut-hdr < 1<<21 {
						y := []byte{wire[0]}
						for rl := cut - hdr; ; {
							d := byte(rl % 128)
							rl /= 128
							if rl > 0 {
								d |= 0x80
							}
							y = append(y, d)
							if rl == 0 {
								break
							}
						}
						run(append(y, wire[hdr:cut]...), "truncated, header adjusted")
					}
				}
			}
		}
		// structure bytes: positions of the explicit segments
		off, nstruct := 0, 0
		for _, s := range c.Wire {
			if s.K == "b" && nstruct < 48 {
				nstruct++
				for _, v := range []byte{wire[off] ^ 1, wire[off] ^ 0x80, 0xFF, 0, wire[off] + 1, wire[off] - 1, wire[off] ^ 0x10} {
					if v != wire[off] {
						y := append([]byte(nil), wire...)
						y[off] = v
						run(y, "structure byte edited")
					}
				}
			}
			off += s.N
		}
		// packet followed by garbage, packet with doubled remaining length
		run(append(append([]byte(nil), wire...), 0xFF, 0xFF), "with trailing bytes")
		return nil
	})
	if err != nil {
		fatal("decodemut: %v", err)
	}
	// remaining-length fields of every length: 1..12 continuation bytes, terminated or not (the
	// specification's Varint has at most 4 bytes; everything longer is malformed)
	if a.num("shard", 0) == 0 || true {
		for _, t := range allTypes {
			first := byte(t)<<4 | t.DefaultFlags()
			for k := 0; k <= 12; k++ {
				for _, cont := range []byte{0x80, 0xff, 0x81} {
					for _, term := range [][]byte{nil, {0x00}, {0x01}, {0x7f}, {0x02, 0x00, 0x01}, {0xff, 0x00}} {
						x := []byte{first}
						for i := 0; i < k; i++ {
							x = append(x, cont)
						}
						x = append(x, term...)
						res.Evaluations++
						decodeOne(t, x, nil, res, "remaining-length field with continuation bytes")
					}
				}
			}
		}
	}
	nrand := a.num("random", 20000)
	for i := 0; i < nrand; i++ {
		n := rng.Intn(40)
		if rng.Intn(10) == 0 {
			n = rng.Intn(400)
		}
		x := make([]byte, n)
		rng.Read(x)
		if n > 0 && rng.Intn(3) > 0 {
			t := allTypes[rng.Intn(len(allTypes))]
			x[0] = byte(t)<<4 | t.DefaultFlags()
			if n > 1 && rng.Intn(2) == 0 {
				x[1] = byte(n - 2)
			}
		}
		res.Evaluations++
		for _, t := range allTypes {
			decodeOne(t, x, nil, res, "random bytes")
		}
	}
	res.emit()
}

func init() {
	commands["codec"] = cmdCodec
	commands["codecids"] = cmdCodecIDs
	commands["decodeparse"] = cmdDecodeParse
	commands["decodemut"] = cmdDecodeMut
}

// editCheck: AddTopic / RemoveTopic at any position of the filter list of a SUBSCRIBE / UNSUBSCRIBE (decoded, or built
// through the API), then Len / Encode against the wire form of the specification's list, and the accessors against the list
func editCheck(c *codecCase, wire []byte, res *Result) {
	e := c.Edit
	rep := map[string]interface{}{"type": e.Ty, "decoded_first": e.Dec, "initial_list": c.Base, "operations": e.Ops, "expected_list": c.Final}
	fail := func(what string) {
		res.mismatch(Mismatch{What: e.Ty + " edited with AddTopic/RemoveTopic: " + what, Tag: "C03", Replay: rep})
	}
	defer func() {
		if r := recover(); r != nil {
			fail(fmt.Sprintf("panic: %v", r))
		}
	}()
	res.Steps++
	filter := func(j int) []byte { return fillBytes(2, 10+j) }
	msg, _ := typeByName[e.Ty].New()
	sub, _ := msg.(*message.SubscribeMessage)
	uns, _ := msg.(*message.UnsubscribeMessage)
	add := func(j, q int) {
		if sub != nil {
			sub.AddTopic(filter(j), byte(q))
		} else {
			uns.AddTopic(filter(j))
		}
	}
	if e.Dec {
		wb, _ := expand(c.WBase)
		in := append(append([]byte(nil), wb...), 0xc0, 0x00)
		if n, err := msg.Decode(in); err != nil || n != len(wb) {
			fail(fmt.Sprintf("Decode of the reference bytes: n=%d err=%v", n, err))
			return
		}
	} else {
		if sub != nil {
			sub.SetPacketID(7)
		} else {
			uns.SetPacketID(7)
		}
		for _, b := range c.Base {
			add(b[0], b[1])
		}
	}
	var calls []string
	for _, op := range e.Ops {
		kind, _ := op[0].(string)
		j := int(op[1].(float64))
		q := int(op[2].(float64))
		if kind == "rm" {
			if sub != nil {
				sub.RemoveTopic(filter(j))
			} else {
				uns.RemoveTopic(filter(j))
			}
			calls = append(calls, fmt.Sprintf("RemoveTopic(#%d)", j))
		} else {
			add(j, q)
			calls = append(calls, fmt.Sprintf("AddTopic(#%d, %d)", j, q))
		}
	}
	how := strings.Join(calls, ", ")
	if l := msg.Len(); l != len(wire) {
		fail(fmt.Sprintf("after %s, Len() = %d, the packet with the resulting list has %d bytes", how, l, len(wire)))
		return
	}
	buf := make([]byte, len(wire))
	n, err := msg.Encode(buf)
	if err != nil || n != len(wire) {
		fail(fmt.Sprintf("after %s, Encode returns n=%d err=%v, the packet with the resulting list has %d bytes", how, n, err, len(wire)))
		return
	}
	if !bytes.Equal(buf, wire) {
		fail(fmt.Sprintf("after %s, Encode wrote % x, the wire form of the resulting list is % x", how, buf, wire))
		return
	}
	// the accessors describe the same list
	var topics [][]byte
	var qos []byte
	if sub != nil {
		topics, qos = sub.Topics(), sub.Qos()
	} else {
		topics = uns.Topics()
	}
	if len(topics) != len(c.Final) || (sub != nil && len(qos) != len(c.Final)) {
		fail(fmt.Sprintf("after %s, Topics() has %d entries, Qos() %d, the resulting list %d", how, len(topics), len(qos), len(c.Final)))
		return
	}
	for i, f := range c.Final {
		if !bytes.Equal(topics[i], filter(f[0])) || (sub != nil && int(qos[i]) != f[1]) {
			fail(fmt.Sprintf("after %s, entry %d of Topics()/Qos() is not entry %d of the resulting list", how, i, i))
			return
		}
	}
}
