package main

import (
	"bytes"
	"encoding/json"
	"fmt"
	"math/rand"
	"os"

	"github.com/mdzio/go-mqtt/message"
	"github.com/mdzio/go-mqtt/sessions"
)

// ---------------------------------------------------------------- AckQueue model adapter (C13)

type aqEntry struct {
	ID    int    `json:"id"`
	Kind  string `json:"kind"`
	C     string `json:"c"`
	State string `json:"state"`
	Ac    string `json:"ac"`
}
type aqAct struct {
	A    string `json:"a"`
	Kind string `json:"kind"`
	Ty   string `json:"ty"`
	ID   int    `json:"id"`
	C    string `json:"c"`
}
type aqRes struct {
	Ok  bool      `json:"ok"`
	Out []aqEntry `json:"out"`
}

var aqTags = []string{"x", "y", "z"}

// request message for (kind, id, content tag)
func aqRequest(kind string, id int, c string) message.Message {
	switch kind {
	case "pub0", "pub1", "pub2":
		m := message.NewPublishMessage()
		m.SetTopic([]byte("t/" + c))
		if c == "" {
			m.SetPayload([]byte("0"))
		} else {
			m.SetPayload(payloadOf(c))
		}
		m.SetQoS(byte(kind[3] - '0'))
		if kind != "pub0" {
			m.SetPacketID(uint16(id))
		}
		return m
	case "sub":
		m := message.NewSubscribeMessage()
		m.SetPacketID(uint16(id))
		m.AddTopic([]byte("f/"+c), byte(len(c)%3))
		return m
	case "unsub":
		m := message.NewUnsubscribeMessage()
		m.SetPacketID(uint16(id))
		m.AddTopic([]byte("u/" + c))
		return m
	case "ping":
		return message.NewPingreqMessage()
	case "bad":
		m := message.NewPubackMessage()
		m.SetPacketID(uint16(id))
		return m
	}
	return nil
}

func aqAck(ty string, id int, c string) message.Message {
	switch ty {
	case "PUBACK":
		m := message.NewPubackMessage()
		m.SetPacketID(uint16(id))
		return m
	case "PUBREC":
		m := message.NewPubrecMessage()
		m.SetPacketID(uint16(id))
		return m
	case "PUBREL":
		m := message.NewPubrelMessage()
		m.SetPacketID(uint16(id))
		return m
	case "PUBCOMP":
		m := message.NewPubcompMessage()
		m.SetPacketID(uint16(id))
		return m
	case "SUBACK":
		m := message.NewSubackMessage()
		m.SetPacketID(uint16(id))
		if c == "y" {
			m.AddReturnCodes([]byte{1, 2})
		} else {
			m.AddReturnCodes([]byte{0})
		}
		return m
	case "UNSUBACK":
		m := message.NewUnsubackMessage()
		m.SetPacketID(uint16(id))
		return m
	case "PINGRESP":
		return message.NewPingrespMessage()
	case "PUBLISH":
		m := message.NewPublishMessage()
		m.SetTopic([]byte("t"))
		m.SetPayload([]byte("p"))
		return m
	}
	return nil
}

func encodeMsg(m message.Message) []byte {
	b := make([]byte, m.Len())
	n, err := m.Encode(b)
	if err != nil {
		panic(fmt.Sprintf("harness: cannot encode %s: %v", m.Name(), err))
	}
	return b[:n]
}

// viaWire returns the message the way the processor sees it: decoded over a buffer that
// the caller overwrites afterwards (scribble).
func viaWire(m message.Message) (message.Message, []byte) {
	b := encodeMsg(m)
	n, err := m.Type().New()
	if err != nil {
		panic(err)
	}
	if _, err := n.Decode(b); err != nil {
		panic(fmt.Sprintf("harness: cannot decode own %s: %v", m.Name(), err))
	}
	return n, b
}

type ackqModel struct {
	q     *sessions.Ackqueue
	calls int
}

func newAckqueue() *sessions.Ackqueue {
	s := &sessions.Session{}
	c := message.NewConnectMessage()
	c.SetVersion(4)
	c.SetClientID([]byte("verif"))
	c.SetCleanSession(true)
	if err := s.Init(c); err != nil {
		panic(err)
	}
	return s.Pub2in
}

func (m *ackqModel) Reset() { m.q = newAckqueue(); m.calls = 0 }

func marker(kind string, id int, c string) string { return fmt.Sprintf("cb:%s:%d:%s", kind, id, c) }

// observe Acked() as specification entries
func aqObserve(q *sessions.Ackqueue) ([]aqEntry, string) {
	var out []aqEntry
	for _, am := range q.Acked() {
		e := aqEntry{ID: int(am.Pktid), State: am.State.Name(), Kind: "?", C: "?"}
		if am.Mtype == message.PINGREQ {
			e.Kind, e.C = "ping", "x"
			if !bytes.Equal(am.Msgbuf, []byte{0xc0, 0}) || !bytes.Equal(am.Ackbuf, []byte{0xd0, 0}) {
				return nil, fmt.Sprintf("ping entry with bytes %x / %x", am.Msgbuf, am.Ackbuf)
			}
			out = append(out, e)
			continue
		}
		// identify the request by its bytes
		for _, kind := range []string{"pub1", "pub2", "sub", "unsub"} {
			for _, c := range aqTags {
				if bytes.Equal(am.Msgbuf, encodeMsg(aqRequest(kind, e.ID, c))) {
					e.Kind, e.C = kind, c
				}
			}
		}
		if e.Kind == "?" {
			return nil, fmt.Sprintf("Acked returned id %d with request bytes that belong to no registered request: %x", e.ID, short(string(am.Msgbuf), 40))
		}
		if mk, _ := am.OnComplete.(string); mk != marker(e.Kind, e.ID, e.C) {
			return nil, fmt.Sprintf("Acked returned id %d (%s,%s) with completion %v", e.ID, e.Kind, e.C, am.OnComplete)
		}
		e.Ac = "?"
		for _, c := range aqTags {
			if a := aqAck(e.State, e.ID, c); a != nil && bytes.Equal(am.Ackbuf, encodeMsg(a)) {
				e.Ac = c
				break
			}
		}
		if e.Ac == "?" {
			return nil, fmt.Sprintf("Acked returned id %d in state %s with acknowledgement bytes %x", e.ID, e.State, am.Ackbuf)
		}
		if e.State != "SUBACK" {
			e.Ac = "x"
		}
		out = append(out, e)
	}
	return out, ""
}

func scribble(b []byte) {
	for i := range b {
		b[i] = 0xA5
	}
}

// apply executes one action; returns ok flag, Acked output (for "acked"), and a description of a
// malformed observation
func (m *ackqModel) apply(a aqAct) (bool, []aqEntry, string) {
	m.calls++
	switch a.A {
	case "wait":
		msg := aqRequest(a.Kind, a.ID, a.C)
		var buf []byte
		if m.calls%2 == 0 {
			msg, buf = viaWire(msg)
		}
		var cb interface{} = marker(a.Kind, a.ID, a.C)
		err := m.q.Wait(msg, cb)
		scribble(buf)
		if p, ok := msg.(*message.PublishMessage); ok && buf == nil {
			scribble(p.Payload())
			scribble(p.Topic())
		}
		return err == nil, nil, ""
	case "ack":
		msg := aqAck(a.Ty, a.ID, a.C)
		var buf []byte
		if m.calls%2 == 0 || a.Ty == "PUBLISH" {
			// nothing
		} else {
			msg, buf = viaWire(msg)
		}
		err := m.q.Ack(msg)
		scribble(buf)
		return err == nil, nil, ""
	case "acked":
		out, bad := aqObserve(m.q)
		return true, out, bad
	}
	return false, nil, "unknown action " + a.A
}

func (m *ackqModel) Do(araw, rraw json.RawMessage, check bool) string {
	var a aqAct
	var r aqRes
	json.Unmarshal(araw, &a)
	json.Unmarshal(rraw, &r)
	ok, out, bad := m.apply(a)
	if !check {
		return ""
	}
	if bad != "" {
		return bad
	}
	if ok != r.Ok {
		return fmt.Sprintf("%s: returned ok=%v, specification ok=%v", string(araw), ok, r.Ok)
	}
	if a.A == "acked" {
		for i := range r.Out {
			if r.Out[i].State != "SUBACK" && r.Out[i].Kind != "ping" {
				r.Out[i].Ac = "x"
			}
			if r.Out[i].Kind == "ping" {
				r.Out[i].Ac = ""
			}
		}
		g, _ := json.Marshal(out)
		e, _ := json.Marshal(r.Out)
		if len(out) == 0 && len(r.Out) == 0 {
			return ""
		}
		if string(g) != string(e) {
			return fmt.Sprintf("Acked() = %s, specification %s", g, e)
		}
	}
	return ""
}

func (m *ackqModel) Check(json.RawMessage) string { return "" }

// ---------------------------------------------------------------- recorded traces (direction B)

// ackqtrace: seeded random drivers on real queues with up to hundreds of in-flight requests;
// every call and its result is logged as one event; TLC validates the log against AckQueueTrace.
func cmdAckqTrace(a Args) {
	seed := int64(a.num("seed", 1))
	ntr := a.num("traces", 20)
	nev := a.num("events", 2000)
	out, err := os.Create(a.str("out", "trace.ndjson"))
	if err != nil {
		fatal("%v", err)
	}
	defer out.Close()
	enc := json.NewEncoder(out)
	res := newResult()
	kindsets := [][]string{{"pub1"}, {"pub2"}, {"sub", "unsub"}, {"pub1", "pub2", "sub", "unsub"}}
	acksets := [][]string{{"PUBACK"}, {"PUBREC", "PUBREL", "PUBCOMP"}, {"SUBACK", "UNSUBACK"}, {"PUBACK", "PUBREC", "PUBREL", "PUBCOMP", "SUBACK", "UNSUBACK"}}
	for t := 0; t < ntr; t++ {
		rng := rand.New(rand.NewSource(seed*1000003 + int64(t)))
		m := &ackqModel{}
		m.Reset()
		enc.Encode(map[string]interface{}{"a": "reset"})
		ks, as := kindsets[t%4], acksets[t%4]
		maxid := []int{40, 120, 400, 400}[rng.Intn(4)]
		// phases: the probability of registering changes so that the queue fills, drains
		// part of the way (head moves) and fills again beyond its capacity
		inflight := map[int]bool{}
		var order []int
		pReg := 0.7
		for e := 0; e < nev; e++ {
			if e%200 == 0 {
				pReg = []float64{0.75, 0.35, 0.6, 0.5}[rng.Intn(4)]
			}
			x := rng.Float64()
			var act aqAct
			switch {
			case x < pReg*0.9:
				id := 1 + rng.Intn(maxid)
				act = aqAct{A: "wait", Kind: ks[rng.Intn(len(ks))], ID: id, C: aqTags[rng.Intn(2)]}
			case x < pReg*0.9+0.02:
				act = aqAct{A: "wait", Kind: []string{"ping", "pub0", "bad"}[rng.Intn(3)], ID: 1, C: "x"}
				if act.Kind != "ping" {
					act.C = ""
				} else {
					act.ID = 0
				}
			case x < 0.93:
				// acknowledge: mostly near the head, sometimes anywhere, sometimes unknown
				id := 1 + rng.Intn(maxid+5)
				if len(order) > 0 && rng.Intn(10) < 7 {
					id = order[rng.Intn(1+rng.Intn(len(order)))%len(order)]
					if rng.Intn(3) > 0 {
						id = order[0]
					}
				}
				ty := as[rng.Intn(len(as))]
				c := "x"
				if ty == "SUBACK" && rng.Intn(2) == 0 {
					c = "y"
				}
				act = aqAct{A: "ack", Ty: ty, ID: id, C: c}
				if rng.Intn(60) == 0 {
					act = aqAct{A: "ack", Ty: "PINGRESP", ID: 0, C: ""}
				}
			default:
				act = aqAct{A: "acked"}
			}
			ok, outl, bad := m.apply(act)
			if bad != "" {
				res.mismatch(Mismatch{What: bad, Replay: map[string]interface{}{"seed": seed, "trace": t, "event": e}})
				break
			}
			ev := map[string]interface{}{"a": act.A, "ok": ok}
			switch act.A {
			case "wait":
				ev["kind"], ev["id"], ev["c"] = act.Kind, act.ID, act.C
				if ok && act.Kind != "ping" && !inflight[act.ID] {
					inflight[act.ID] = true
					order = append(order, act.ID)
				}
			case "ack":
				ev["ty"], ev["id"], ev["c"] = act.Ty, act.ID, act.C
			case "acked":
				if outl == nil {
					outl = []aqEntry{}
				}
				ev["out"] = outl
				for _, o := range outl {
					if o.Kind != "ping" {
						delete(inflight, o.ID)
						for i, v := range order {
							if v == o.ID {
								order = append(order[:i], order[i+1:]...)
								break
							}
						}
					}
				}
			}
			enc.Encode(ev)
			res.Steps++
			if len(order) > res.Counts["max_in_flight"] {
				res.Counts["max_in_flight"] = len(order)
			}
		}
		res.Evaluations++
	}
	res.emit()
}

func init() {
	models["ackq"] = func(Args) Model { return &ackqModel{} }
	commands["ackqtrace"] = cmdAckqTrace
}
