package main

// Recorder of connection life-cycle events (hook verifLife of go-mqtt, plus the "proc" and "stop.done" events):
// the recorded traces are validated by TLC against spec/LifeTrace.tla (actions of spec/Life.tla).
// A recording is what one broker did from its creation to the end of all its connections; recordings are
// appended to one ndjson file, separated by "reset" events.

import (
	"bufio"
	"encoding/json"
	"os"
	"sort"
	"sync"
	"time"
)

type lifeEv struct {
	seq uint64
	ev  string
	svc uint64
	w   int64
}

type lifeRecorder struct {
	mu       sync.Mutex
	on       bool
	evs      []lifeEv
	server   map[uint64]bool // services in the broker role that have started
	done     map[uint64]bool
	lastProc map[uint64]bool // the last recorded event of the connection was a proc event
	out      *bufio.Writer
	f        *os.File
	recs     int
	events   int
	every    int // keep every n-th recording (the validation cost is linear in the events kept)
	nth      int
}

var lifeRec *lifeRecorder

var lifeNames = map[string]bool{"start": true, "rcv.exit": true, "snd.exit": true, "prc.exit": true, "proc": true, "disc": true,
	"stop.begin": true, "stop.joined": true, "stop.will": true, "stop.done": true}

func lifeOpen(path string, every int) {
	if path == "" {
		return
	}
	if every < 1 {
		every = 1
	}
	f, err := os.Create(path)
	if err != nil {
		fatal("life trace: %v", err)
	}
	lifeRec = &lifeRecorder{f: f, out: bufio.NewWriterSize(f, 1<<20), every: every}
	extraEventSink = lifeRec.sink
}

func (lr *lifeRecorder) sink(seq uint64, ev string, svc uint64, a, b, c int64, s string) {
	if !lifeNames[ev] {
		return
	}
	lr.mu.Lock()
	defer lr.mu.Unlock()
	if !lr.on {
		return
	}
	if ev == "start" {
		if a != 0 {
			return // client role
		}
		lr.server[svc] = true
	}
	if ev == "stop.done" {
		lr.done[svc] = true
	}
	w := b
	if ev == "proc" || ev == "stop.done" {
		w = 0
	}
	if ev == "proc" {
		// "a packet was handled" says the same thing twice in a row: one event per run of packets of a connection
		if lr.lastProc[svc] {
			return
		}
		lr.lastProc[svc] = true
	} else {
		lr.lastProc[svc] = false
	}
	lr.evs = append(lr.evs, lifeEv{seq, ev, svc, w})
}

// begin starts a recording (the broker is about to be created).
func (lr *lifeRecorder) begin() {
	if lr == nil {
		return
	}
	lr.mu.Lock()
	lr.nth++
	lr.on, lr.evs, lr.server, lr.done, lr.lastProc = lr.nth%lr.every == 0, nil, map[uint64]bool{}, map[uint64]bool{}, map[uint64]bool{}
	lr.mu.Unlock()
}

// end closes the recording. With keep, it waits (bounded) until every started connection has finished its
// teardown - the caller has ended all connections - and appends the events; a recording whose run was
// abandoned half-way (the replayer saw a mismatch and returned) is dropped.
func (lr *lifeRecorder) end(keep bool) {
	if lr == nil {
		return
	}
	lr.mu.Lock()
	keep = keep && lr.on
	lr.mu.Unlock()
	if keep {
		for k := 0; k < 600; k++ {
			lr.mu.Lock()
			all := true
			for id := range lr.server {
				if !lr.done[id] {
					all = false
				}
			}
			lr.mu.Unlock()
			if all {
				break
			}
			time.Sleep(5 * time.Millisecond)
		}
	}
	lr.mu.Lock()
	evs := lr.evs
	server := lr.server
	lr.on, lr.evs = false, nil
	lr.mu.Unlock()
	if !keep {
		return
	}
	// the sequence number is taken at the hook, in the goroutine that does the step: it orders the events
	sort.Slice(evs, func(i, j int) bool { return evs[i].seq < evs[j].seq })
	ids := map[uint64]int{}
	for _, e := range evs {
		if !server[e.svc] {
			continue // never started in the broker role (failed handshake, client role)
		}
		n, ok := ids[e.svc]
		if !ok {
			n = len(ids) + 1
			ids[e.svc] = n
		}
		b, _ := json.Marshal(map[string]interface{}{"e": e.ev, "c": n, "w": e.w})
		lr.out.Write(b)
		lr.out.WriteByte('\n')
		lr.events++
	}
	lr.out.WriteString("{\"e\":\"reset\",\"c\":0,\"w\":0}\n")
	lr.recs++
}

func (lr *lifeRecorder) close() (recs, events int) {
	if lr == nil {
		return 0, 0
	}
	lr.out.Flush()
	lr.f.Close()
	return lr.recs, lr.events
}
