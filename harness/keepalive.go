package main

import (
	"bytes"
	"encoding/json"
	"fmt"
	"io"
	"net"
	"strings"
	"sync"
	"sync/atomic"
	"time"

	"github.com/mdzio/go-mqtt/service"
)

// ---------------------------------------------------------------- C19: keep-alive in real time

type kaStep struct {
	Gap    int    `json:"gap"`
	Kind   string `json:"kind"`
	Expect string `json:"expect"`
	Fed    bool   `json:"fed"`
	Prior  string `json:"prior"`
	Hold   int    `json:"hold"`
	Deaf   bool   `json:"deaf"`
}

// runKeepAlive executes one client schedule against a fresh broker with KeepAlive = k seconds.
// One grid unit is k/10 seconds.
// req is the value the CONNECT carries (0 = "no keep-alive requested": the broker substitutes its default, so k is
// then the default); unit overrides the grid (a finer grid only makes the client more active).
func runKeepAlive(steps []kaStep, k, req int, unit time.Duration) string {
	r := newBrokerRun("mockSuccess", 2)
	defer r.cleanup()
	// the server's own KeepAlive option (a default of the configuration) is set to something short: what counts for a
	// connection is the keep-alive its CONNECT negotiated (C19: "a client that negotiated a keep-alive of K seconds")
	r.svr.KeepAlive = 1
	if unit == 0 {
		unit = time.Duration(k) * time.Second / 10
	}
	// witness subscribed to the will topic
	wit, err := r.rawConnect("w", bAct{K: "kawit", Clean: true, Ka: 600})
	if err != nil {
		return "INFRA witness connect: " + err.Error()
	}
	wit.c.Write(pkt(0x82, append([]byte{0, 1}, append(lp([]byte("will/#")), 0)...)))
	if _, err := readPkt(wit.c, r.tmo); err != nil {
		return "INFRA witness subscribe: " + err.Error()
	}
	clean := true
	if len(steps) > 0 && steps[0].Prior == "long" {
		// an earlier connection of the same client identifier (CleanSession 0, keep-alive 60 s) leaves a stored session
		prev, err := r.rawConnect("c0", bAct{K: "kacl", Clean: false, Ka: 60})
		if err != nil {
			return "INFRA prior connect: " + err.Error()
		}
		prev.c.Write([]byte{0xe0, 0})
		time.Sleep(30 * time.Millisecond)
		prev.c.Close()
		time.Sleep(30 * time.Millisecond)
		clean = false
	}
	a := bAct{K: "kacl", Clean: clean, Ka: req, Will: bWill{On: true, T: "will/ka", Pl: "w1", Q: 0}}
	if req == 0 {
		a.Form = "ka0"
	}
	m, err := r.rawConnect("c", a)
	if err != nil {
		return "INFRA connect: " + err.Error()
	}
	if len(steps) > 0 && steps[0].Prior == "rival" {
		// another connection presents the same client identifier while this one is up, and stays
		if _, err := r.rawConnect("c2", bAct{K: "kacl", Clean: true, Ka: 600}); err != nil {
			return "INFRA rival connect: " + err.Error()
		}
	}
	// a fed client is subscribed to a topic the witness connection publishes on every 0.3 K, for as long as the schedule runs
	fed := len(steps) > 0 && steps[0].Fed
	deaf := len(steps) > 0 && steps[0].Deaf
	stopFeed := make(chan struct{})
	defer close(stopFeed)
	if fed {
		m.c.Write(pkt(0x82, append([]byte{0, 7}, append(lp([]byte("ka/feed")), 0)...)))
		if p, err := readPkt(m.c, r.tmo); err != nil || p.first != 0x90 {
			return fmt.Sprintf("the client connected with keep-alive %d s and sent a SUBSCRIBE right away, but got no SUBACK (%v): the connection was dropped while the client was active", k, err)
		}
		// the feeder is a connection of its own (its deliveries may get stuck on a client that does not read)
		fd, err := r.rawConnect("f", bAct{K: "kafeed", Clean: true, Ka: 600})
		if err != nil {
			return "INFRA feeder connect: " + err.Error()
		}
		go func() {
			feed := func(n int) bool {
				fd.c.SetWriteDeadline(time.Now().Add(time.Second))
				_, err := fd.c.Write(pkt(0x30, append(lp([]byte("ka/feed")), bytes.Repeat([]byte{'f'}, n)...)))
				return err == nil
			}
			if deaf {
				// more than the client's outgoing ring of 16 KiB holds, at once: the feeder's delivery blocks on it
				for i := 0; i < 24; i++ {
					if !feed(1024) {
						return
					}
				}
			}
			tick := time.NewTicker(3 * unit)
			defer tick.Stop()
			for {
				select {
				case <-stopFeed:
					return
				case <-tick.C:
					if !feed(1) {
						return
					}
				}
			}
		}()
	}
	// reader: records PINGRESPs and the moment the broker closes the connection
	var mu sync.Mutex
	var closedAt time.Time
	pongs := 0
	paused := false // the client does not read for a while (kind "backlog")
	willSeen := false
	if deaf {
		// a deaf client's connection is not read: its end is observed through its will arriving at the witness
		go func() {
			for {
				p, err := readPkt(wit.c, time.Hour)
				if err != nil {
					return
				}
				if p.first>>4 == 3 && strings.Contains(string(p.body), "will/ka") {
					mu.Lock()
					closedAt, willSeen = time.Now(), true
					mu.Unlock()
					return
				}
			}
		}()
	}
	go func() {
		if deaf {
			return
		}
		for {
			for {
				mu.Lock()
				p := paused
				mu.Unlock()
				if !p {
					break
				}
				time.Sleep(5 * time.Millisecond)
			}
			p, err := readPkt(m.c, time.Hour)
			if err != nil {
				mu.Lock()
				closedAt = time.Now()
				mu.Unlock()
				return
			}
			if p.first == 0xd0 {
				mu.Lock()
				pongs++
				mu.Unlock()
			}
		}
	}()
	lastSend := time.Now()
	wantPongs := 0
	sawBig := false // the broker may close right after an over-long packet began (refusal): not "too early"
	for i, st := range steps {
		time.Sleep(time.Until(lastSend.Add(time.Duration(st.Gap) * unit)))
		mu.Lock()
		ca := closedAt
		mu.Unlock()
		switch st.Expect {
		case "up":
			if !ca.IsZero() && sawBig {
				return "" // closed by the refusal of the over-long packet
			}
			if !ca.IsZero() {
				if ca.Sub(lastSend) >= time.Duration(k)*time.Second {
					// this process was held up (loaded machine) and did not send in time: the broker was right to
					// close; the schedule says nothing
					return "LATE"
				}
				return fmt.Sprintf("step %d: the client sent a packet every %v or less (KeepAlive %ds) but the broker closed the connection %v after the last packet",
					i, time.Duration(st.Gap)*unit, k, ca.Sub(lastSend).Round(10*time.Millisecond))
			}
			m.c.SetWriteDeadline(time.Now().Add(time.Second))
			var err error
			if st.Kind == "backlog" {
				// 30000 PINGREQs in one write while nothing is read: the broker takes what its two 16 KiB rings hold
				// and leaves the rest on offer; after the hold the client reads again and everything goes through
				mu.Lock()
				paused = true
				mu.Unlock()
				const n = 30000
				flood := make([]byte, 2*n)
				for j := 0; j < n; j++ {
					flood[2*j] = 0xc0
				}
				done := make(chan error, 1)
				m.c.SetWriteDeadline(time.Now().Add(time.Duration(st.Hold)*unit + 10*time.Second))
				go func() { _, e := m.c.Write(flood); done <- e }()
				time.Sleep(time.Duration(st.Hold) * unit)
				mu.Lock()
				paused = false
				mu.Unlock()
				if e := <-done; e != nil {
					return fmt.Sprintf("step %d: the client had %d PINGREQs on offer for %v without reading the answers, then read again: the rest of its packets was not taken (%v) - "+
						"dropped although it was never silent (KeepAlive %ds)", i, n, time.Duration(st.Hold)*unit, e, k)
				}
				wantPongs += n
				lastSend = time.Now()
				continue
			}
			if st.Kind == "ping" {
				_, err = m.c.Write([]byte{0xc0, 0})
				if !deaf {
					wantPongs++
				}
			} else if st.Kind == "part1" {
				_, err = m.c.Write([]byte{0xc0}) // the first byte of a PINGREQ, and nothing more
			} else if st.Kind == "partbig" {
				// remaining length 8192 (the 16 KiB ring minus one read block): 8193 of the packet's 8195 bytes
				p := pkt(0x30, append(lp([]byte("k")), make([]byte, 8192-3)...))
				sawBig = true
				_, err = m.c.Write(p[:len(p)-2])
			} else if st.Kind == "part3" {
				_, err = m.c.Write([]byte{0x30, 0x0a, 0x00}) // a PUBLISH announcing 10 bytes of which one arrives
			} else {
				_, err = m.c.Write(pkt(0x30, append(lp([]byte("ka/t")), 'x')))
			}
			if err != nil && st.Kind == "partbig" {
				err = nil // refused while it was still being written: the broker may do that
			}
			if err != nil {
				if time.Since(lastSend) >= time.Duration(k)*time.Second {
					return "LATE"
				}
				return fmt.Sprintf("step %d: write failed although the client was active: %v", i, err)
			}
			lastSend = time.Now()
		case "stalled":
			// the specification's named deviation DevStalledReceiver: the implementation as it is does not drop this
			// client; one that does is not wrong
			if ca.IsZero() {
				return fmt.Sprintf("KNOWN stalled-receiver step %d: the client was silent for %v (%.1f x KeepAlive %ds) and the connection is still open", i,
					time.Duration(st.Gap)*unit, float64(st.Gap)/10, k)
			}
			return ""
		case "dropped":
			if ca.IsZero() {
				return fmt.Sprintf("step %d: the client was silent for %v (%.1f x KeepAlive %ds) and the connection is still open", i,
					time.Duration(st.Gap)*unit, float64(st.Gap)/10, k)
			}
			if d := ca.Sub(lastSend); d < time.Duration(k)*time.Second && !sawBig {
				return fmt.Sprintf("step %d: connection closed only %v after the last packet (KeepAlive %ds)", i, d.Round(10*time.Millisecond), k)
			}
			if deaf {
				mu.Lock()
				ws := willSeen
				mu.Unlock()
				if !ws {
					return fmt.Sprintf("step %d: keep-alive expiry without the will being published", i)
				}
				// and the connection is closed: reading what was never read ends with end-of-stream, not with a time-out
				for {
					if _, err := readPkt(m.c, 2*time.Second); err != nil {
						if ne, ok := err.(net.Error); ok && ne.Timeout() {
							return fmt.Sprintf("step %d: the will was published but the connection of the silent client is still open", i)
						}
						break
					}
				}
				return ""
			}
			// abnormal end: the will reaches the witness
			p, err := readPkt(wit.c, 2*time.Second)
			if err != nil || p.first>>4 != 3 || !strings.Contains(string(p.body), "will/ka") {
				return fmt.Sprintf("step %d: keep-alive expiry without the will being published (%v)", i, err)
			}
			return ""
		}
	}
	// every PINGREQ is answered (give the answers up to 2 s on a loaded machine)
	for w := 0; w < 200; w++ {
		mu.Lock()
		ok := pongs == wantPongs || !closedAt.IsZero()
		mu.Unlock()
		if ok {
			break
		}
		time.Sleep(10 * time.Millisecond)
	}
	mu.Lock()
	defer mu.Unlock()
	if pongs != wantPongs && closedAt.IsZero() {
		return fmt.Sprintf("%d PINGREQ sent, %d PINGRESP received", wantPongs, pongs)
	}
	if !closedAt.IsZero() && !sawBig {
		return "connection closed although the client stayed active"
	}
	return ""
}

// rawConnect opens a connection on a fresh pipe and completes the CONNECT handshake
func (r *brokerRun) rawConnect(name string, a bAct) (*bConn, error) {
	cl, sv0 := net.Pipe()
	sv := &halfConn{Conn: sv0}
	if err := service.VerifServe(r.svr, sv); err != nil {
		return nil, err
	}
	go cl.Write(connectBytes(a))
	p, err := readPkt(cl, r.tmo)
	if err != nil {
		return nil, err
	}
	if p.first != 0x20 || len(p.body) != 2 || p.body[1] != 0 {
		return nil, fmt.Errorf("unexpected answer to CONNECT: %x %x", p.first, p.body)
	}
	m := &bConn{c: cl, half: sv}
	r.conns[name] = m
	return m, nil
}

// halfConn: the broker's end of a pipe whose client can shut down its sending direction alone: the broker reads the
// end of the stream, its writes go on as before (and block while the client does not read)
type halfConn struct {
	net.Conn
	half int32
}

func (c *halfConn) Read(b []byte) (int, error) {
	if atomic.LoadInt32(&c.half) == 1 {
		return 0, io.EOF
	}
	n, err := c.Conn.Read(b)
	if err != nil && atomic.LoadInt32(&c.half) == 1 {
		return n, io.EOF
	}
	return n, err
}

func (c *halfConn) halfClose() {
	atomic.StoreInt32(&c.half, 1)
	c.Conn.SetReadDeadline(time.Now()) // a Read in progress returns now
}

var _ = io.EOF

// keepalive -k seconds: all schedules of the input run in parallel lanes (they mostly sleep)
func cmdKeepAlive(a Args) {
	res := newResult()
	k := a.num("k", 1)
	req := a.num("req", k)
	unit := time.Duration(a.num("unitms", 0)) * time.Millisecond
	var scheds [][]kaStep
	readLines(a, func(line []byte) error {
		var s []kaStep
		if err := json.Unmarshal(line, &s); err != nil {
			return err
		}
		scheds = append(scheds, s)
		return nil
	})
	lanes := a.num("lanes", 24)
	var wg sync.WaitGroup
	var mu sync.Mutex
	sem := make(chan struct{}, lanes)
	for _, s := range scheds {
		wg.Add(1)
		sem <- struct{}{}
		go func(s []kaStep) {
			defer wg.Done()
			defer func() { <-sem }()
			d := runKeepAlive(s, k, req, unit)
			mu.Lock()
			defer mu.Unlock()
			res.Evaluations++
			res.Steps += len(s)
			if d == "LATE" {
				res.Counts["late"]++
			} else if strings.HasPrefix(d, "INFRA") {
				res.Notes = append(res.Notes, d)
				res.Counts["infra"]++
			} else if strings.HasPrefix(d, "KNOWN stalled-receiver ") {
				res.mismatch(Mismatch{What: strings.TrimPrefix(d, "KNOWN stalled-receiver "), Known: "stalled-receiver", Tag: "C19", Replay: map[string]interface{}{"keepalive_s": k, "connect_keepalive": req, "unit_ms": unit.Milliseconds(), "schedule": s}})
			} else if d != "" {
				res.mismatch(Mismatch{What: d, Tag: "C19", Replay: map[string]interface{}{"keepalive_s": k, "connect_keepalive": req, "unit_ms": unit.Milliseconds(), "schedule": s}})
			}
			if len(res.Samples) < 3 {
				res.Samples = append(res.Samples, s)
			}
		}(s)
	}
	wg.Wait()
	res.emit()
}

func init() { commands["keepalive"] = cmdKeepAlive }
