package main

// Decoders are used by many goroutines at once (one processor per connection, the accept path for every new
// connection): concurrent Decode calls on independent message objects and independent inputs return normally, each
// with the fields of its own packet. A Go runtime abort ("fatal error: concurrent map writes") cannot be recovered:
// the caller (lib/checks.py) takes the death of this process as the observation.

import (
	"bytes"
	"fmt"
	"sync"

	"github.com/mdzio/go-mqtt/message"
)

func cmdDecodeConc(a Args) {
	res := newResult()
	workers := a.num("workers", 8)
	rounds := a.num("rounds", 20000)
	var wg sync.WaitGroup
	var mu sync.Mutex
	for w := 0; w < workers; w++ {
		wg.Add(1)
		go func(w int) {
			defer wg.Done()
			defer func() {
				if r := recover(); r != nil {
					mu.Lock()
					res.mismatch(Mismatch{What: fmt.Sprintf("concurrent decoders: Decode panics: %v", r), Tag: "C04"})
					mu.Unlock()
				}
			}()
			for i := 0; i < rounds; i++ {
				cid := fmt.Sprintf("w%dc%d", w, i)
				user := fmt.Sprintf("u%d", i%7)
				// CONNECT
				c := message.NewConnectMessage()
				c.SetVersion(4)
				c.SetCleanSession(true)
				c.SetClientID([]byte(cid))
				c.SetKeepAlive(uint16(i))
				c.SetUsername([]byte(user))
				buf := make([]byte, c.Len())
				if _, err := c.Encode(buf); err != nil {
					continue
				}
				d := message.NewConnectMessage()
				n, err := d.Decode(buf)
				bad := ""
				if err != nil || n != len(buf) || !bytes.Equal(d.ClientID(), []byte(cid)) || !bytes.Equal(d.Username(), []byte(user)) || d.KeepAlive() != uint16(i) {
					bad = fmt.Sprintf("CONNECT %q decoded concurrently: n=%d err=%v client id %q user %q keep-alive %d", cid, n, err, d.ClientID(), d.Username(), d.KeepAlive())
				}
				// SUBSCRIBE and PUBLISH of the same worker
				s := message.NewSubscribeMessage()
				s.SetPacketID(uint16(i%65535 + 1))
				s.AddTopic([]byte("t/"+cid), byte(i%3))
				sb := make([]byte, s.Len())
				s.Encode(sb)
				sd := message.NewSubscribeMessage()
				if n, err := sd.Decode(sb); err != nil || n != len(sb) || len(sd.Topics()) != 1 || !bytes.Equal(sd.Topics()[0], []byte("t/"+cid)) {
					bad = fmt.Sprintf("SUBSCRIBE decoded concurrently: n=%d err=%v topics %q", n, err, sd.Topics())
				}
				p := message.NewPublishMessage()
				p.SetTopic([]byte("t/" + cid))
				p.SetPayload([]byte(cid))
				pb := make([]byte, p.Len())
				p.Encode(pb)
				pd := message.NewPublishMessage()
				if n, err := pd.Decode(pb); err != nil || n != len(pb) || !bytes.Equal(pd.Payload(), []byte(cid)) {
					bad = fmt.Sprintf("PUBLISH decoded concurrently: n=%d err=%v payload %q", n, err, pd.Payload())
				}
				if bad != "" {
					mu.Lock()
					res.mismatch(Mismatch{What: bad, Tag: "C04"})
					mu.Unlock()
					return
				}
			}
		}(w)
	}
	wg.Wait()
	res.Evaluations = workers * rounds * 3
	res.emit()
}

func init() { commands["decodeconc"] = cmdDecodeConc }
