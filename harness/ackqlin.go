package main

// Concurrent callers on one real sessions.Ackqueue: recorded call/return histories for spec/AckQueueLinTrace.tla.
// One trial = a sequential prefix that brings a fresh queue to a chosen ring state (head moved, ring full or nearly
// full), a few calls released at the same moment in different goroutines (among them the Wait that makes a full
// ring grow), and a sequential drain.

import (
	"bufio"
	"encoding/json"
	"fmt"
	"math/rand"
	"os"
	"sort"
	"sync"
	"sync/atomic"

	"github.com/mdzio/go-mqtt/message"
	"github.com/mdzio/go-mqtt/sessions"
)

type aqlEv struct {
	seq uint64
	m   map[string]interface{}
}

type aqlLog struct {
	mu  sync.Mutex
	seq uint64
	evs []aqlEv
}

func (l *aqlLog) add(m map[string]interface{}) {
	s := atomic.AddUint64(&l.seq, 1)
	l.mu.Lock()
	l.evs = append(l.evs, aqlEv{s, m})
	l.mu.Unlock()
}

// addAt files an event under a sequence number taken earlier (concurrent phase: the callers only draw numbers,
// so that logging does not serialise them)
func (l *aqlLog) addAt(s uint64, m map[string]interface{}) {
	l.mu.Lock()
	l.evs = append(l.evs, aqlEv{s, m})
	l.mu.Unlock()
}

type aqlCall struct {
	op  string
	pid int
	ty  string
}

func aqlDo(q *sessions.Ackqueue, lg *aqlLog, id int, c aqlCall) string {
	out := []map[string]interface{}{}
	bad := ""
	var req, ack message.Message
	switch c.op {
	case "wait":
		req = aqRequest("pub1", c.pid, "x")
	case "ack":
		ack = aqAck(c.ty, c.pid, "x")
	}
	s0 := atomic.AddUint64(&lg.seq, 1)
	switch c.op {
	case "wait":
		q.Wait(req, marker("pub1", c.pid, "x"))
	case "ack":
		q.Ack(ack)
	case "acked":
		es, b := aqObserve(q)
		bad = b
		for _, e := range es {
			out = append(out, map[string]interface{}{"id": e.ID, "state": e.State})
		}
	}
	s1 := atomic.AddUint64(&lg.seq, 1)
	lg.addAt(s0, map[string]interface{}{"ev": "call", "id": id, "op": c.op, "pid": c.pid, "ty": c.ty})
	lg.addAt(s1, map[string]interface{}{"ev": "ret", "id": id, "out": out})
	return bad
}

func cmdAckqLin(a Args) {
	res := newResult()
	trials := a.num("trials", 2000)
	rng := rand.New(rand.NewSource(int64(a.num("seed", 1))))
	f, err := os.Create(a.str("out", "/dev/null"))
	if err != nil {
		fatal("ackqlin: %v", err)
	}
	w := bufio.NewWriterSize(f, 1<<20)
	defer func() { w.Flush(); f.Close() }()
	const n = 16 // initial capacity of the ring
	for t := 0; t < trials; t++ {
		q := newAckqueue()
		rel := 1 + rng.Intn(n-1)
		more := rel
		if rng.Intn(4) == 0 {
			more = rel - 1 // control: one slot free, the concurrent Wait does not grow the ring
		}
		for i := 1; i <= n; i++ {
			q.Wait(aqRequest("pub1", i, "x"), marker("pub1", i, "x"))
		}
		for i := 1; i <= rel; i++ {
			q.Ack(aqAck("PUBACK", i, "x"))
		}
		if got := len(q.Acked()); got != rel {
			res.mismatch(Mismatch{What: fmt.Sprintf("sequential prefix: Acked released %d of %d acknowledged requests", got, rel), Tag: "C13"})
			continue
		}
		for i := n + 1; i <= n+more; i++ {
			q.Wait(aqRequest("pub1", i, "x"), marker("pub1", i, "x"))
		}
		lg := &aqlLog{}
		lg.add(map[string]interface{}{"ev": "setup", "n": n, "rel": rel, "more": more})
		// the concurrent calls: the growing Wait, an acknowledgement of the head entry, and one more call
		last := n + more
		calls := []aqlCall{{"wait", last + 1, ""}, {"ack", rel + 1, "PUBACK"}}
		switch rng.Intn(4) {
		case 0:
			calls = append(calls, aqlCall{"ack", rel + 1 + rng.Intn(last-rel), "PUBACK"})
		case 1:
			calls = append(calls, aqlCall{"acked", 0, ""})
		case 2:
			calls = append(calls, aqlCall{"wait", last + 2, ""})
		}
		var ready, wg sync.WaitGroup
		var gate int32
		bads := make([]string, len(calls))
		for k, c := range calls {
			ready.Add(1)
			wg.Add(1)
			go func(k int, c aqlCall) {
				defer wg.Done()
				ready.Done()
				for atomic.LoadInt32(&gate) == 0 {
				}
				bads[k] = aqlDo(q, lg, k+1, c)
			}(k, c)
		}
		ready.Wait()
		atomic.StoreInt32(&gate, 1)
		wg.Wait()
		// drain: everything still queued is acknowledged and must come back, in order
		id := len(calls) + 1
		bad := aqlDo(q, lg, id, aqlCall{"acked", 0, ""})
		id++
		for p := rel + 1; p <= last+2; p++ {
			q.Ack(aqAck("PUBACK", p, "x"))
		}
		lg.add(map[string]interface{}{"ev": "ackall"})
		if b := aqlDo(q, lg, id, aqlCall{"acked", 0, ""}); b != "" {
			bad = b
		}
		for _, b := range bads {
			if b != "" {
				bad = b
			}
		}
		if bad != "" {
			res.mismatch(Mismatch{What: "concurrent callers: " + bad, Tag: "C13", Replay: map[string]interface{}{"rel": rel, "more": more, "calls": fmt.Sprint(calls)}})
		}
		lg.add(map[string]interface{}{"ev": "reset"})
		sort.Slice(lg.evs, func(i, j int) bool { return lg.evs[i].seq < lg.evs[j].seq })
		for _, e := range lg.evs {
			for _, k := range []string{"id", "op", "pid", "ty", "n", "rel", "more"} {
				if _, ok := e.m[k]; !ok {
					if k == "op" || k == "ty" {
						e.m[k] = ""
					} else {
						e.m[k] = 0
					}
				}
			}
			if _, ok := e.m["out"]; !ok {
				e.m["out"] = []int{}
			}
			b, _ := json.Marshal(e.m)
			w.Write(b)
			w.WriteByte('\n')
			res.Steps++
		}
		res.Evaluations++
	}
	// one big trial: more requests in flight than any smaller power of two holds (identifiers run up to 65535)
	if big := a.num("big", 0); big > 0 {
		q := newAckqueue()
		for i := 1; i <= big; i++ {
			q.Wait(aqRequest("pub1", i, "x"), marker("pub1", i, "x"))
		}
		lg := &aqlLog{}
		lg.add(map[string]interface{}{"ev": "bigsetup", "n": big})
		bad := aqlDo(q, lg, 1, aqlCall{"acked", 0, ""})
		for p := 1; p <= big; p++ {
			q.Ack(aqAck("PUBACK", p, "x"))
		}
		lg.add(map[string]interface{}{"ev": "ackall"})
		if b := aqlDo(q, lg, 2, aqlCall{"acked", 0, ""}); b != "" {
			bad = b
		}
		if bad != "" {
			res.mismatch(Mismatch{What: fmt.Sprintf("%d requests in flight: %s", big, bad), Tag: "C13"})
		}
		lg.add(map[string]interface{}{"ev": "reset"})
		sort.Slice(lg.evs, func(i, j int) bool { return lg.evs[i].seq < lg.evs[j].seq })
		for _, e := range lg.evs {
			for _, k := range []string{"id", "op", "pid", "ty", "n", "rel", "more"} {
				if _, ok := e.m[k]; !ok {
					if k == "op" || k == "ty" {
						e.m[k] = ""
					} else {
						e.m[k] = 0
					}
				}
			}
			if _, ok := e.m["out"]; !ok {
				e.m["out"] = []int{}
			}
			b, _ := json.Marshal(e.m)
			w.Write(b)
			w.WriteByte('\n')
			res.Steps++
		}
		res.Evaluations++
	}
	res.emit()
}

func init() { commands["ackqlin"] = cmdAckqLin }
