package main

import (
	"encoding/binary"
	"encoding/json"
	"fmt"
	"net"
	"runtime"
	"sort"
	"strings"
	"sync"
	"sync/atomic"
	"time"

	"github.com/mdzio/go-mqtt/message"
	"github.com/mdzio/go-mqtt/service"
)

// ---------------------------------------------------------------- C12 / C20: the library client against a scripted peer

type cPkt struct {
	Ty string   `json:"ty"`
	R  int      `json:"r"`
	Q  int      `json:"q"`
	ID int      `json:"id"`
	T  string   `json:"t"`
	Fs []string `json:"fs"`
}
type cDisp struct {
	Cb int    `json:"cb"`
	T  string `json:"t"`
	M  string `json:"m"`
	N  int    `json:"n"`
}
type cAct struct {
	A     string   `json:"a"`
	Q     int      `json:"q"`
	R     int      `json:"r"`
	Fs    []string `json:"fs"`
	Ty    string   `json:"ty"`
	Codes []int    `json:"codes"`
	T     string   `json:"t"`
	ID    int      `json:"id"`
	M     string   `json:"m"`
	Dup   bool     `json:"dup"`
	Cb    *bool    `json:"cb"` // apppublish: false = the application passes no completion callback
}
type cStep struct {
	A    cAct    `json:"a"`
	Wire []cPkt  `json:"wire"`
	Done []int   `json:"done"`
	Disp []cDisp `json:"disp"`
	Lost bool    `json:"lost"`
}

var clientSeq uint64
var procCount int64

type clientRun struct {
	ln     net.Listener
	peer   net.Conn
	cl     *service.Client
	ids    map[int]int // request number -> packet identifier seen on the wire
	mu     sync.Mutex
	done   []int
	disp   []cDisp
	held   chan struct{} // a sending call held between write and register
	holdOn int32
	callWG sync.WaitGroup
}

func (r *clientRun) close() {
	if r.cl != nil {
		done := make(chan struct{})
		go func() { r.cl.Disconnect(); close(done) }()
		select {
		case <-done:
		case <-time.After(2 * time.Second):
		}
	}
	if r.peer != nil {
		r.peer.Close()
	}
	r.ln.Close()
}

func newClientRun() (*clientRun, string) {
	ln, err := net.Listen("tcp", "127.0.0.1:0")
	if err != nil {
		return nil, "INFRA listen: " + err.Error()
	}
	r := &clientRun{ln: ln, ids: map[int]int{}}
	acc := make(chan net.Conn, 1)
	go func() {
		c, err := ln.Accept()
		if err != nil {
			return
		}
		if _, err := readPkt(c, 3*time.Second); err != nil { // CONNECT
			c.Close()
			return
		}
		c.Write([]byte{0x20, 2, 0, 0})
		acc <- c
	}()
	cm := message.NewConnectMessage()
	cm.SetVersion(4)
	cm.SetCleanSession(true)
	cm.SetClientID([]byte(fmt.Sprintf("vcl%dx%d", time.Now().UnixNano()%100000, atomic.AddUint64(&clientSeq, 1))))
	cm.SetKeepAlive(300)
	r.cl = &service.Client{}
	registryMu.Lock()
	err = r.cl.Connect("tcp://"+ln.Addr().String(), cm)
	registryMu.Unlock()
	if err != nil {
		ln.Close()
		return nil, "INFRA client connect: " + err.Error()
	}
	select {
	case r.peer = <-acc:
	case <-time.After(3 * time.Second):
		ln.Close()
		return nil, "INFRA peer accept"
	}
	return r, ""
}

func (r *clientRun) onComplete(req int) service.OnCompleteFunc {
	return func(msg, ack message.Message, err error) error {
		r.mu.Lock()
		r.done = append(r.done, req)
		r.mu.Unlock()
		return nil
	}
}

func (r *clientRun) onPublish(req int) service.OnPublishFunc {
	return func(msg *message.PublishMessage) error {
		r.mu.Lock()
		// message tags starting with "R" stand for messages that carry the RETAIN flag ("R" alone: and no payload)
		mtag := tagOf(msg.Payload())
		if msg.Retain() {
			mtag = "R" + mtag
		}
		r.disp = append(r.disp, cDisp{Cb: req, T: string(msg.Topic()), M: mtag, N: 1})
		r.mu.Unlock()
		return nil
	}
}

// waitProc waits until the client's processor has handled n more packets
func waitProc(target int64) bool {
	deadline := time.Now().Add(3 * time.Second)
	for atomic.LoadInt64(&procCount) < target {
		if time.Now().After(deadline) {
			return false
		}
		time.Sleep(20 * time.Microsecond)
	}
	return true
}

func idOf(r *clientRun, req int) int {
	if id, ok := r.ids[req]; ok {
		return id
	}
	return 60000 + req // an identifier that is not in flight
}

func runClientBehaviour(steps []cStep, res *Result, dev bool) (string, string) {
	service.VerifEventFn = func(seq uint64, ev string, svc uint64, a, b, c int64, s string) {
		if ev == "proc" {
			atomic.AddInt64(&procCount, 1)
		}
	}
	r, e := newClientRun()
	if e != "" {
		return e, "INFRA"
	}
	defer r.close()
	r.held = make(chan struct{}, 1)
	release := make(chan struct{}, 1)
	if dev {
		service.VerifYieldFn = func(obj int64, site string) {
			if strings.HasSuffix(site, ".between") && atomic.LoadInt32(&r.holdOn) == 1 {
				r.held <- struct{}{}
				<-release
			}
		}
		defer func() { service.VerifYieldFn = nil }()
	}
	for i, st := range steps {
		a := st.A
		where := fmt.Sprintf("step %d %s", i, a.A)
		r.mu.Lock()
		r.done, r.disp = nil, nil
		r.mu.Unlock()
		base := atomic.LoadInt64(&procCount)
		call := func(f func() error) string {
			if !dev {
				if err := f(); err != nil {
					return "call failed: " + err.Error()
				}
				return ""
			}
			atomic.StoreInt32(&r.holdOn, 1)
			r.callWG.Add(1)
			go func() { defer r.callWG.Done(); f() }()
			select {
			case <-r.held:
			case <-time.After(3 * time.Second):
				return "INFRA the sending call never reached the yield point between write and register"
			}
			return ""
		}
		switch a.A {
		case "apppublish":
			m := message.NewPublishMessage()
			m.SetTopic([]byte("t/app"))
			m.SetPayload(brokerPayload("x"))
			m.SetQoS(byte(a.Q))
			if a.Dup {
				m.SetDup(true) // the application re-sends a message of an earlier connection
			}
			var d string
			var oc service.OnCompleteFunc = r.onComplete(a.R)
			if a.Cb != nil && !*a.Cb {
				oc = nil
			}
			if a.Q == 0 {
				if err := r.cl.Publish(m, oc); err != nil {
					d = "call failed: " + err.Error()
				}
			} else {
				d = call(func() error { return r.cl.Publish(m, oc) })
			}
			if d != "" {
				return where + ": " + d, tagOrInfra(d, "C12")
			}
			if !dev {
				// the call has returned: the application uses its message object and its payload buffer for something else
				pl := m.Payload()
				for i := range pl {
					pl[i] = 'Z'
				}
				m.SetTopic([]byte("zz/reused"))
				m.SetPacketID(0xfff0)
			}
		case "appsubscribe":
			m := message.NewSubscribeMessage()
			for _, f := range a.Fs {
				m.AddTopic([]byte(f), 1)
			}
			if d := call(func() error { return r.cl.Subscribe(m, r.onComplete(a.R), r.onPublish(a.R)) }); d != "" {
				return where + ": " + d, tagOrInfra(d, "C12")
			}
			if !dev {
				// the call has returned: the request is what was sent, whatever the application does with its message object
				// afterwards (here: it builds its next request in it)
				for _, f := range a.Fs {
					m.RemoveTopic([]byte(f))
				}
				m.AddTopic([]byte("zz/reused"), 0)
				m.SetPacketID(0xfff0)
			}
		case "appunsubscribe":
			m := message.NewUnsubscribeMessage()
			for _, f := range a.Fs {
				m.AddTopic([]byte(f))
			}
			if d := call(func() error { return r.cl.Unsubscribe(m, r.onComplete(a.R)) }); d != "" {
				return where + ": " + d, tagOrInfra(d, "C12")
			}
			if !dev {
				for _, f := range a.Fs {
					m.RemoveTopic([]byte(f))
				}
				m.AddTopic([]byte("zz/reused"))
				m.SetPacketID(0xfff0)
			}
		case "appping":
			if err := r.cl.Ping(r.onComplete(a.R)); err != nil {
				return where + ": call failed: " + err.Error(), "C12"
			}
		case "register":
			release <- struct{}{}
			atomic.StoreInt32(&r.holdOn, 0)
			r.callWG.Wait()
		case "peerack":
			id := idOf(r, a.R)
			var b []byte
			switch a.Ty {
			case "PUBACK":
				b = []byte{0x40, 2, byte(id >> 8), byte(id)}
			case "PUBREC":
				b = []byte{0x50, 2, byte(id >> 8), byte(id)}
			case "PUBCOMP":
				b = []byte{0x70, 2, byte(id >> 8), byte(id)}
			case "UNSUBACK":
				b = []byte{0xb0, 2, byte(id >> 8), byte(id)}
			case "PINGRESP":
				b = []byte{0xd0, 0}
			case "SUBACK":
				body := []byte{byte(id >> 8), byte(id)}
				for _, c := range a.Codes {
					body = append(body, byte(c))
				}
				b = pkt(0x90, body)
			}
			r.peer.Write(b)
			if !waitProc(base + 1) {
				return where + fmt.Sprintf("(%s): the client did not process the packet within 3 s", a.Ty), "C12"
			}
		case "peerpublish":
			first := byte(0x30) | byte(a.Q)<<1
			if a.Dup {
				first |= 8
			}
			body := lp([]byte(a.T))
			if a.Q > 0 {
				body = append(body, byte(a.ID>>8), byte(a.ID))
			}
			ptag := a.M
			if strings.HasPrefix(ptag, "R") {
				first |= 1
				ptag = ptag[1:]
			}
			r.peer.Write(pkt(first, append(body, brokerPayload(ptag)...)))
			if !waitProc(base + 1) {
				return where + ": the client did not process the PUBLISH within 3 s", "C20"
			}
		case "peerpubrel":
			r.peer.Write([]byte{0x62, 2, byte(a.ID >> 8), byte(a.ID)})
			if !waitProc(base + 1) {
				return where + ": the client did not process the PUBREL within 3 s", "C20"
			}
		}
		res.Steps++
		// what the library wrote
		for _, exp := range st.Wire {
			p, err := readPkt(r.peer, 2*time.Second)
			if err != nil {
				return fmt.Sprintf("%s: expected %s on the wire, got nothing (%v)", where, exp.Ty, err), wireTag(exp.Ty)
			}
			got := decodeRaw(p)
			gty := got.Ty
			switch p.first >> 4 {
			case 8:
				gty = "SUBSCRIBE"
			case 10:
				gty = "UNSUBSCRIBE"
			case 12:
				gty = "PINGREQ"
			}
			if gty != exp.Ty {
				return fmt.Sprintf("%s: the library sent %s, specification %s", where, gty, exp.Ty), wireTag(exp.Ty)
			}
			id := 0
			switch exp.Ty {
			case "PUBLISH":
				id = got.ID
				if got.Q != exp.Q {
					return fmt.Sprintf("%s: PUBLISH sent with QoS %d, specification %d", where, got.Q, exp.Q), "C12"
				}
			case "SUBSCRIBE", "UNSUBSCRIBE":
				if len(p.body) >= 2 {
					id = int(binary.BigEndian.Uint16(p.body))
				}
			case "PUBREL", "PUBACK", "PUBREC", "PUBCOMP":
				id = got.ID
			}
			if exp.Ty == "PUBLISH" && exp.Q > 0 || exp.Ty == "SUBSCRIBE" || exp.Ty == "UNSUBSCRIBE" {
				// a new request: its identifier is non-zero and distinct from everything in flight
				if id <= 0 {
					return fmt.Sprintf("%s: request %d sent with packet identifier %d", where, exp.R, id), "C12"
				}
				for req, other := range r.ids {
					if other == id && req != exp.R {
						return fmt.Sprintf("%s: request %d uses packet identifier %d, which request %d still has in flight", where, exp.R, id, req), "C12"
					}
				}
				r.ids[exp.R] = id
			}
			if exp.Ty == "PUBREL" && id != idOf(r, exp.R) {
				return fmt.Sprintf("%s: PUBREL carries identifier %d, the PUBREC had %d", where, id, idOf(r, exp.R)), "C12"
			}
			if (exp.Ty == "PUBACK" || exp.Ty == "PUBREC" || exp.Ty == "PUBCOMP") && id != exp.ID {
				return fmt.Sprintf("%s: %s carries identifier %d, the packet it answers had %d", where, exp.Ty, id, exp.ID), "C02"
			}
		}
		// nothing else on the wire
		if p, err := readPkt(r.peer, 3*time.Millisecond); err == nil {
			return fmt.Sprintf("%s: the library sent an unexpected packet (type %d)", where, p.first>>4), "C12"
		}
		// completions and dispatches: give stragglers a moment, then compare
		var done []int
		var disp []cDisp
		for k := 0; k < 60; k++ {
			r.mu.Lock()
			done = append([]int(nil), r.done...)
			disp = append([]cDisp(nil), r.disp...)
			r.mu.Unlock()
			if len(done) >= len(st.Done) && len(disp) >= nDisp(st.Disp) {
				break
			}
			time.Sleep(50 * time.Microsecond)
		}
		if fmt.Sprint(done) != fmt.Sprint(st.Done) && !(len(done) == 0 && len(st.Done) == 0) {
			for _, req := range done {
				delete(r.ids, req)
			}
			return fmt.Sprintf("%s: completion callbacks fired for requests %v, specification %v", where, done, st.Done), "C12"
		}
		for _, req := range done {
			delete(r.ids, req)
		}
		if d := dispDiff(disp, st.Disp); d != "" {
			return fmt.Sprintf("%s(%s): %s", where, a.T, d), "C20"
		}
	}
	return "", ""
}

func tagOrInfra(d, tag string) string {
	if strings.HasPrefix(d, "INFRA") {
		return "INFRA"
	}
	return tag
}

func wireTag(ty string) string {
	if ty == "PUBACK" || ty == "PUBREC" || ty == "PUBCOMP" {
		return "C02"
	}
	return "C12"
}

func nDisp(ds []cDisp) int {
	n := 0
	for _, d := range ds {
		n += d.N
	}
	return n
}

func dispDiff(got []cDisp, exp []cDisp) string {
	count := map[string]int{}
	for _, g := range got {
		count[fmt.Sprintf("cb%d %s %s", g.Cb, g.T, g.M)]++
	}
	want := map[string]int{}
	for _, e := range exp {
		want[fmt.Sprintf("cb%d %s %s", e.Cb, e.T, e.M)] += e.N
	}
	var ks []string
	for k := range count {
		ks = append(ks, k)
	}
	for k := range want {
		if _, ok := count[k]; !ok {
			ks = append(ks, k)
		}
	}
	sort.Strings(ks)
	for _, k := range ks {
		if count[k] != want[k] {
			return fmt.Sprintf("message callback invocations {%s: %d}, specification %d (all observed: %v)", k, count[k], want[k], count)
		}
	}
	return ""
}

func cmdClientReplay(a Args) {
	res := newResult()
	maxKeptMismatches = 60
	dev := a.str("dev", "") != ""
	err := readLines(a, func(line []byte) error {
		var steps []cStep
		if err := json.Unmarshal(line, &steps); err != nil {
			return err
		}
		// the verdict is clear after many unclassified divergences (each may cost several time-outs): skip the rest
		if res.Counts["known:"] >= 40 {
			res.Counts["skipped_after_violation"]++
			return nil
		}
		res.Evaluations++
		d, tag := runClientBehaviour(steps, res, dev)
		if tag == "INFRA" {
			res.Notes = append(res.Notes, d)
			res.Counts["infra"]++
			return nil
		}
		if d != "" {
			var acts []string
			for _, s := range steps {
				j, _ := json.Marshal(s.A)
				acts = append(acts, string(j))
			}
			m := Mismatch{What: d, Tag: tag, Replay: map[string]interface{}{"behaviour": acts}}
			res.mismatch(m)
		} else if dev {
			// the code did what the specification WITH the named deviation predicts; if the behaviour
			// contains an acknowledgement processed between write and register, the completion was lost:
			// that is the known finding, observed once more
			for _, s := range steps {
				if s.Lost {
					var acts []string
					for _, x := range steps {
						j, _ := json.Marshal(x.A)
						acts = append(acts, string(j))
					}
					res.mismatch(Mismatch{What: "an acknowledgement processed between write and register of its request is lost: the completion never fires and the late entry blocks its queue",
						Tag: "C12", Known: "register-after-write", Replay: map[string]interface{}{"behaviour": acts}})
					break
				}
			}
		}
		if len(res.Samples) < 2 && len(steps) >= 4 {
			var acts []string
			for _, s := range steps {
				j, _ := json.Marshal(s.A)
				acts = append(acts, string(j))
			}
			res.Samples = append(res.Samples, acts)
		}
		return nil
	})
	if err != nil {
		fatal("clientreplay: %v", err)
	}
	res.emit()
}

// clientconnect: Client.Connect against every CONNACK answer; the result must be nil exactly for code 0,
// the refusal code otherwise, and no goroutine of the library may stay behind.
func cmdClientConnect(a Args) {
	res := newResult()
	type ccase struct {
		name   string
		answer []byte
		want   string
		split  int // > 0: the answer arrives in two segments, the first of this many bytes
	}
	cases := []ccase{{"code0", []byte{0x20, 2, 0, 0}, "ok", 0}, {"code0-sp", []byte{0x20, 2, 1, 0}, "ok", 0}}
	for c := 1; c <= 5; c++ {
		cases = append(cases, ccase{fmt.Sprintf("code%d", c), []byte{0x20, 2, 0, byte(c)}, fmt.Sprintf("code%d", c), 0})
	}
	cases = append(cases, ccase{"malformed-code9", []byte{0x20, 2, 0, 9}, "error", 0}, ccase{"not-connack", []byte{0x90, 3, 0, 1, 0}, "error", 0},
		ccase{"truncated", []byte{0x20, 2, 0}, "error", 0}, ccase{"closed", nil, "error", 0})
	// the same answers arriving in two TCP segments: the result may not depend on how the bytes are cut
	for _, c := range append([]ccase{}, cases...) {
		for sp := 1; sp < len(c.answer) && len(c.answer) == 4; sp++ {
			cases = append(cases, ccase{fmt.Sprintf("%s-split%d", c.name, sp), c.answer, c.want, sp})
		}
	}
	for rep := 0; rep < a.num("reps", 3); rep++ {
		for _, c := range cases {
			res.Evaluations++
			res.Steps++
			base, _ := libraryGoroutines()
			ln, err := net.Listen("tcp", "127.0.0.1:0")
			if err != nil {
				fatal("listen: %v", err)
			}
			go func(c ccase) {
				conn, err := ln.Accept()
				if err != nil {
					return
				}
				readPkt(conn, 2*time.Second)
				if c.answer != nil {
					if c.split > 0 {
						conn.Write(c.answer[:c.split])
						time.Sleep(60 * time.Millisecond)
						conn.Write(c.answer[c.split:])
					} else {
						conn.Write(c.answer)
					}
					time.Sleep(20 * time.Millisecond)
				}
				if c.want != "ok" {
					conn.Close()
				} else {
					time.Sleep(300 * time.Millisecond)
					conn.Close()
				}
			}(c)
			cm := message.NewConnectMessage()
			cm.SetVersion(4)
			cm.SetCleanSession(true)
			cm.SetClientID([]byte(fmt.Sprintf("vcc%dx%d", time.Now().UnixNano()%100000, atomic.AddUint64(&clientSeq, 1))))
			cl := &service.Client{ConnectTimeout: 1}
			err = cl.Connect("tcp://"+ln.Addr().String(), cm)
			got := "ok"
			if err != nil {
				got = "error"
				if code, ok := err.(message.ConnackCode); ok {
					got = fmt.Sprintf("code%d", int(code))
				}
			}
			if got != c.want {
				res.mismatch(Mismatch{What: fmt.Sprintf("Client.Connect against CONNACK %s returned %s (%v), specification %s", c.name, got, err, c.want), Tag: "C20",
					Replay: map[string]interface{}{"connack": fmt.Sprintf("%x", c.answer)}})
			}
			if err == nil {
				cl.Disconnect()
			}
			ln.Close()
			n := 0
			first := ""
			for k := 0; k < 400; k++ {
				n, first = libraryGoroutines()
				if n <= base {
					break
				}
				time.Sleep(5 * time.Millisecond)
			}
			if n > base {
				res.mismatch(Mismatch{What: fmt.Sprintf("Client.Connect against CONNACK %s: %d goroutines of the library left behind, e.g. %s", c.name, n-base, short(first, 200)), Tag: "C20",
					Replay: map[string]interface{}{"connack": fmt.Sprintf("%x", c.answer)}})
			}
			runtime.Gosched()
		}
	}
	res.Samples = append(res.Samples, "CONNACK answers: code 0..5, session present, code 9, SUBACK instead, truncated, connection closed")
	res.emit()
}

// fwdids: packet identifiers of requests simultaneously in flight from the broker to one subscriber.
// Two publishers use the same identifier towards a QoS 1 subscriber that withholds its acknowledgements.
func cmdFwdIDs(a Args) {
	res := newResult()
	for rep := 0; rep < a.num("reps", 5); rep++ {
		res.Evaluations++
		r := newBrokerRun("mockSuccess", 2)
		fr := &faultRun{r: r, cl: map[string]*fClient{}}
		sub, e := fr.connect("S", "idsub", "ids/#")
		if e != "" {
			res.Notes = append(res.Notes, e)
			res.Counts["infra"]++
			r.cleanup()
			continue
		}
		p1, _ := fr.connect("P", "idp1")
		p2, _ := fr.connect("W1", "idp2")
		for k, p := range []*fClient{p1, p2, p1} {
			id := 7
			if k == 2 {
				id = 8
			}
			fr.write(p, pkt(0x32, append(append(lp([]byte(fmt.Sprintf("ids/%d", k))), byte(id>>8), byte(id)), 'x')), time.Second)
		}
		var ids []int
		deadline := time.After(3 * time.Second)
	loop:
		for len(ids) < 3 {
			select {
			case p := <-sub.rx:
				if p.first>>4 == 3 {
					ids = append(ids, decodeRaw(p).ID)
				}
			case <-deadline:
				break loop
			}
		}
		res.Steps += len(ids)
		bad := ""
		known := ""
		seen := map[int]bool{}
		for _, id := range ids {
			if id <= 0 {
				bad = fmt.Sprintf("a QoS 1 PUBLISH was forwarded with packet identifier %d", id)
			} else if seen[id] {
				bad = fmt.Sprintf("two unacknowledged QoS 1 PUBLISH packets on one subscriber connection carry the same packet identifier %d (identifiers seen: %v)", id, ids)
				if id == 7 {
					known = "forwarded-id" // exactly the named deviation: the publisher's identifier is kept
				}
			}
			seen[id] = true
		}
		if len(ids) < 3 {
			bad, known = fmt.Sprintf("only %d of 3 QoS 1 deliveries arrived", len(ids)), ""
		}
		if bad != "" {
			res.mismatch(Mismatch{What: bad, Tag: "C12", Known: known, Replay: map[string]interface{}{"publishers": "two publishers, QoS 1, identifiers 7, 7, 8; subscriber withholds PUBACK", "ids": ids}})
		}
		for _, f := range fr.cl {
			f.cut = true
			f.c.Close()
		}
		r.cleanup()
	}
	res.Samples = append(res.Samples, "two publishers send QoS 1 PUBLISH id 7 each, then id 8; the subscriber does not acknowledge")
	res.emit()
}

func init() {
	commands["fwdids"] = cmdFwdIDs
	commands["clientreplay"] = cmdClientReplay
	commands["clientconnect"] = cmdClientConnect
}

// ---------------------------------------------------------------- C20: Client.Connect over histories (ClientConn specification)

type ccStep struct {
	A      string `json:"a"`
	Answer string `json:"answer"`
	Want   string `json:"want"`
}

// clientconnhist: every input line is a history of connect / disconnect / serverdrop steps of ONE client identifier
func cmdClientConnHist(a Args) {
	res := newResult()
	answers := map[string][]byte{"code0": {0x20, 2, 0, 0}, "code0-sp": {0x20, 2, 1, 0}, "code4": {0x20, 2, 0, 4}, "malformed-code9": {0x20, 2, 0, 9}, "closed": nil}
	err := readLines(a, func(line []byte) error {
		var steps []ccStep
		if err := json.Unmarshal(line, &steps); err != nil {
			return err
		}
		res.Evaluations++
		cid := fmt.Sprintf("vch%dx%d", time.Now().UnixNano()%100000, atomic.AddUint64(&clientSeq, 1))
		base, _ := libraryGoroutines()
		var cl *service.Client
		var srvConn net.Conn
		fail := func(i int, what string) {
			res.mismatch(Mismatch{What: fmt.Sprintf("step %d %s: %s", i, steps[i].A, what), Tag: "C20", Replay: map[string]interface{}{"history": steps}})
		}
		settled := func() (int, string) {
			n, first := 0, ""
			for k := 0; k < 400; k++ {
				n, first = libraryGoroutines()
				if n <= base {
					return 0, ""
				}
				time.Sleep(5 * time.Millisecond)
			}
			return n - base, first
		}
	hist:
		for i, st := range steps {
			res.Steps++
			switch st.A {
			case "connect":
				ln, err := net.Listen("tcp", "127.0.0.1:0")
				if err != nil {
					fatal("listen: %v", err)
				}
				accepted := make(chan net.Conn, 1)
				ans := answers[st.Answer]
				go func() {
					conn, err := ln.Accept()
					if err != nil {
						accepted <- nil
						return
					}
					readPkt(conn, 2*time.Second)
					if ans != nil {
						conn.Write(ans)
					}
					if st.Want != "ok" {
						time.Sleep(10 * time.Millisecond)
						conn.Close()
						accepted <- nil
						return
					}
					accepted <- conn
				}()
				cm := message.NewConnectMessage()
				cm.SetVersion(4)
				cm.SetCleanSession(true)
				cm.SetClientID([]byte(cid))
				cl = &service.Client{ConnectTimeout: 1}
				got, detail := "ok", ""
				func() {
					defer func() {
						if p := recover(); p != nil {
							got, detail = "panic", fmt.Sprint(p)
						}
					}()
					if err := cl.Connect("tcp://"+ln.Addr().String(), cm); err != nil {
						got, detail = "error", err.Error()
						if code, ok := err.(message.ConnackCode); ok {
							got = fmt.Sprintf("code%d", int(code))
						}
					}
				}()
				select {
				case srvConn = <-accepted:
				case <-time.After(3 * time.Second):
					srvConn = nil
				}
				ln.Close()
				if got != st.Want {
					fail(i, fmt.Sprintf("Client.Connect (client identifier used before in this history: %v) against CONNACK %s returned %s (%s), specification %s", i > 0, st.Answer, got, short(detail, 120), st.Want))
					if srvConn != nil {
						srvConn.Close()
					}
					break hist
				}
				if got != "ok" {
					if n, first := settled(); n > 0 {
						fail(i, fmt.Sprintf("%d goroutines of the library left behind after the refused Connect, e.g. %s", n, short(first, 200)))
						break hist
					}
				}
			case "disconnect":
				cl.Disconnect()
				if srvConn != nil {
					srvConn.Close()
				}
				if n, first := settled(); n > 0 {
					fail(i, fmt.Sprintf("%d goroutines of the library left behind after Disconnect, e.g. %s", n, short(first, 200)))
					break hist
				}
			case "serverdrop":
				if srvConn != nil {
					srvConn.Close()
				}
				// the client notices by itself; nothing of it stays behind
				if n, first := settled(); n > 0 {
					fail(i, fmt.Sprintf("%d goroutines of the library left behind after the server closed the connection, e.g. %s", n, short(first, 200)))
					break hist
				}
			}
		}
		// a connection still up at the end of the history
		if cl != nil && len(steps) > 0 && steps[len(steps)-1].A == "connect" && steps[len(steps)-1].Want == "ok" {
			func() {
				defer func() { recover() }()
				cl.Disconnect()
			}()
			if srvConn != nil {
				srvConn.Close()
			}
			settled()
		}
		if len(res.Samples) < 2 {
			res.Samples = append(res.Samples, steps)
		}
		return nil
	})
	if err != nil {
		fatal("clientconnhist: %v", err)
	}
	res.emit()
}

func init() { commands["clientconnhist"] = cmdClientConnHist }
