------------------------------- MODULE Client -------------------------------
(* The library in the client role (service/client.go, service.go publish / subscribe /
   unsubscribe / ping, process.go) against a scripted peer, sequential regime: one action =
   one call of the application or one packet of the peer, with the library's complete
   reaction.  A step predicts the packets the library writes (wire), the completion
   callbacks it fires (done, in order) and the message callbacks it invokes (disp).

   Requests are numbered r = 1, 2, ... in the order the application issues them; the packet
   identifier the library assigns to request r is whatever appears on the wire (the replayer
   maps r to it), the specification only requires: non-zero, distinct among requests in flight.

   q1, q2, sb, us : FIFO queues of in-flight requests per kind (sessions.Ackqueue semantics:
                    an entry is released - its completion fires - when it has its terminal
                    acknowledgement and every earlier entry of the queue has been released)
   ping           : the single PINGREQ slot
   tree           : client-local subscriptions [f, cb], filled when the SUBACK is released
   p2in           : incoming QoS 2 exchanges of the peer

   DevRegisterAfterWrite (named deviation, FALSE in every claimed configuration): the code
   writes a request to the connection BEFORE it registers it for its acknowledgement, so the
   application call is two steps (Write, Register) and an acknowledgement processed in
   between finds no entry: the completion is lost and the late entry blocks its queue.   *)
EXTENDS MqttTopic, TLC, Json

CONSTANTS MaxSteps, DevRegisterAfterWrite, DedupDispatch,
          NoCb     \* numbers of the requests for which the application passes no completion callback (Publish(msg, nil)):
                   \* they are registered, acknowledged and released like the others, there is just nothing to call - and
                   \* that must not keep the callbacks of the requests released with them from being called

VARIABLES nreq, q1, q2, sb, us, ping, tree, p2in, half, wire, done, disp, last, prev, steps, hist
abs == <<nreq, q1, q2, sb, us, ping, tree, p2in, half>>
vars == <<nreq, q1, q2, sb, us, ping, tree, p2in, half, wire, done, disp, last, prev, steps, hist>>

RECURSIVE Join(_)
Join(x) == IF Len(x) = 1 THEN x[1] ELSE x[1] \o "/" \o Join(Tail(x))

NoHalf == [on |-> FALSE, kind |-> "", r |-> 0, fs |-> <<>>]
Init == /\ nreq = 0 /\ q1 = <<>> /\ q2 = <<>> /\ sb = <<>> /\ us = <<>> /\ ping = 0
        /\ tree = {} /\ p2in = <<>> /\ half = NoHalf
        /\ wire = <<>> /\ done = <<>> /\ disp = {} /\ last = [a |-> "init"] /\ prev = <<>> /\ steps = 0 /\ hist = <<>>

\* lost = this step is in the class of the known finding: an acknowledgement of the very request whose
\* sending call is still between write and register
Log(a) == /\ last' = a /\ prev' = abs /\ steps' = steps + 1
          /\ hist' = Append(hist, [a |-> a, wire |-> wire', done |-> done', disp |-> disp',
                                    lost |-> (a.a = "peerack" /\ half.on /\ a.r = half.r)])

Pk(ty, r, q) == [ty |-> ty, r |-> r, q |-> q, id |-> 0, t |-> "", fs |-> <<>>]
JoinAll(fs) == [i \in 1..Len(fs) |-> Join(fs[i])]

-----------------------------------------------------------------------------
(* application calls *)
Fires(s) == SelectSeq(s, LAMBDA r : r \notin NoCb)     \* the completions that can be observed
Entry(r) == [r |-> r, st |-> "none", codes |-> <<>>, fs |-> <<>>]

\* the two halves of a sending call when the deviation is modelled
Reg(kind, e) == /\ q1' = IF kind = "pub1" THEN Append(q1, e) ELSE q1
                /\ q2' = IF kind = "pub2" THEN Append(q2, e) ELSE q2
                /\ sb' = IF kind = "sub" THEN Append(sb, e) ELSE sb
                /\ us' = IF kind = "unsub" THEN Append(us, e) ELSE us

\* dup: the application re-sends a message it could not complete on an earlier connection and sets the DUP flag itself
\* (4.4): a request like any other - registered, acknowledged, completed
AppPublishD(q, dup) ==
  /\ ~half.on
  /\ nreq' = nreq + 1
  /\ wire' = <<[Pk("PUBLISH", nreq + 1, q) EXCEPT !.t = "t/app"]>>
  /\ IF q = 0
       THEN /\ done' = Fires(<<nreq + 1>>) /\ UNCHANGED <<q1, q2, sb, us, half>>
       ELSE /\ done' = <<>>
            /\ IF DevRegisterAfterWrite
                 THEN /\ half' = [on |-> TRUE, kind |-> IF q = 1 THEN "pub1" ELSE "pub2", r |-> nreq + 1, fs |-> <<>>]
                      /\ UNCHANGED <<q1, q2, sb, us>>
                 ELSE /\ Reg(IF q = 1 THEN "pub1" ELSE "pub2", Entry(nreq + 1)) /\ UNCHANGED half
  /\ disp' = {} /\ UNCHANGED <<ping, tree, p2in>>
  /\ Log([a |-> "apppublish", q |-> q, r |-> nreq + 1, cb |-> (nreq + 1) \notin NoCb, dup |-> dup])
AppPublish(q) == AppPublishD(q, FALSE)

AppSubscribe(fs) ==
  /\ ~half.on
  /\ nreq' = nreq + 1
  /\ wire' = <<[Pk("SUBSCRIBE", nreq + 1, 0) EXCEPT !.fs = JoinAll(fs)]>>
  /\ IF DevRegisterAfterWrite
       THEN /\ half' = [on |-> TRUE, kind |-> "sub", r |-> nreq + 1, fs |-> fs] /\ UNCHANGED <<q1, q2, sb, us>>
       ELSE /\ Reg("sub", [Entry(nreq + 1) EXCEPT !.fs = fs]) /\ UNCHANGED half
  /\ done' = <<>> /\ disp' = {} /\ UNCHANGED <<ping, tree, p2in>>
  /\ Log([a |-> "appsubscribe", fs |-> JoinAll(fs), r |-> nreq + 1])

AppUnsubscribe(fs) ==
  /\ ~half.on
  /\ nreq' = nreq + 1
  /\ wire' = <<[Pk("UNSUBSCRIBE", nreq + 1, 0) EXCEPT !.fs = JoinAll(fs)]>>
  /\ IF DevRegisterAfterWrite
       THEN /\ half' = [on |-> TRUE, kind |-> "unsub", r |-> nreq + 1, fs |-> fs] /\ UNCHANGED <<q1, q2, sb, us>>
       ELSE /\ Reg("unsub", [Entry(nreq + 1) EXCEPT !.fs = fs]) /\ UNCHANGED half
  /\ done' = <<>> /\ disp' = {} /\ UNCHANGED <<ping, tree, p2in>>
  /\ Log([a |-> "appunsubscribe", fs |-> JoinAll(fs), r |-> nreq + 1])

AppPing ==
  /\ ~half.on
  /\ nreq' = nreq + 1 /\ ping' = nreq + 1
  /\ wire' = <<Pk("PINGREQ", nreq + 1, 0)>>
  /\ done' = <<>> /\ disp' = {} /\ UNCHANGED <<q1, q2, sb, us, tree, p2in, half>>
  /\ Log([a |-> "appping", r |-> nreq + 1])

\* deviation only: the sending call, held between write and register, goes on
Register ==
  /\ half.on
  /\ Reg(half.kind, [Entry(half.r) EXCEPT !.fs = half.fs])
  /\ half' = NoHalf
  /\ wire' = <<>> /\ done' = <<>> /\ disp' = {} /\ UNCHANGED <<nreq, ping, tree, p2in>>
  /\ Log([a |-> "register", r |-> half.r])

-----------------------------------------------------------------------------
(* acknowledgements of the peer; r = 0 stands for an identifier that is not in flight *)
Mark(q, r, st, codes) == [i \in 1..Len(q) |-> IF q[i].r = r THEN [q[i] EXCEPT !.st = st, !.codes = codes] ELSE q[i]]
RECURSIVE NTerm(_, _)
NTerm(q, T) == IF q = <<>> \/ Head(q).st \notin T THEN 0 ELSE 1 + NTerm(Tail(q), T)
Rs(q, n) == [i \in 1..n |-> q[i].r]

PeerPuback(r) ==
  /\ LET m == Mark(q1, r, "PUBACK", <<>>)  n == NTerm(m, {"PUBACK"}) IN
       /\ q1' = SubSeq(m, n + 1, Len(m)) /\ done' = Fires(Rs(m, n))
  /\ wire' = <<>> /\ disp' = {} /\ UNCHANGED <<nreq, q2, sb, us, ping, tree, p2in, half>>
  /\ Log([a |-> "peerack", ty |-> "PUBACK", r |-> r])

\* PUBREC: the entry moves on, a PUBREL with the same identifier is sent (also for an unknown one)
PeerPubrec(r) ==
  /\ q2' = Mark(q2, r, "PUBREC", <<>>)
  /\ wire' = <<Pk("PUBREL", r, 0)>>
  /\ done' = <<>> /\ disp' = {} /\ UNCHANGED <<nreq, q1, sb, us, ping, tree, p2in, half>>
  /\ Log([a |-> "peerack", ty |-> "PUBREC", r |-> r])

PeerPubcomp(r) ==
  /\ LET m == Mark(q2, r, "PUBCOMP", <<>>)  n == NTerm(m, {"PUBCOMP"}) IN
       /\ q2' = SubSeq(m, n + 1, Len(m)) /\ done' = Fires(Rs(m, n))
  /\ wire' = <<>> /\ disp' = {} /\ UNCHANGED <<nreq, q1, sb, us, ping, tree, p2in, half>>
  /\ Log([a |-> "peerack", ty |-> "PUBCOMP", r |-> r])

\* SUBACK: when the request is released, its accepted filters enter the local tree with the request's callback
RECURSIVE AddSubs(_, _, _)
AddSubs(T, ents, i) ==
  IF i > Len(ents) THEN T
  ELSE LET e == ents[i] IN
       AddSubs(T \cup {[f |-> e.fs[j], cb |-> e.r] : j \in {k \in 1..Len(e.fs) : k <= Len(e.codes) /\ e.codes[k] # 128}}, ents, i + 1)
PeerSuback(r, codes) ==
  /\ LET m == Mark(sb, r, "SUBACK", codes)  n == NTerm(m, {"SUBACK"}) IN
       /\ sb' = SubSeq(m, n + 1, Len(m)) /\ done' = Rs(m, n)
       /\ tree' = AddSubs(tree, SubSeq(m, 1, n), 1)
  /\ wire' = <<>> /\ disp' = {} /\ UNCHANGED <<nreq, q1, q2, us, ping, p2in, half>>
  /\ Log([a |-> "peerack", ty |-> "SUBACK", r |-> r, codes |-> codes])

\* UNSUBACK: when released, every local subscription of the listed filters is removed
PeerUnsuback(r) ==
  /\ LET m == Mark(us, r, "UNSUBACK", <<>>)  n == NTerm(m, {"UNSUBACK"})
         gone == UNION {{m[i].fs[j] : j \in 1..Len(m[i].fs)} : i \in 1..n} IN
       /\ us' = SubSeq(m, n + 1, Len(m)) /\ done' = Rs(m, n)
       /\ tree' = {s \in tree : s.f \notin gone}
  /\ wire' = <<>> /\ disp' = {} /\ UNCHANGED <<nreq, q1, q2, sb, ping, p2in, half>>
  /\ Log([a |-> "peerack", ty |-> "UNSUBACK", r |-> r])

PeerPingresp ==
  /\ done' = (IF ping # 0 THEN <<ping>> ELSE <<>>) /\ ping' = 0
  /\ wire' = <<>> /\ disp' = {} /\ UNCHANGED <<nreq, q1, q2, sb, us, tree, p2in, half>>
  /\ Log([a |-> "peerack", ty |-> "PINGRESP", r |-> 0])

-----------------------------------------------------------------------------
(* application messages from the peer: dispatch through the local tree *)
Hits(T, t, m) == IF DedupDispatch
                   THEN {[cb |-> c, t |-> Join(t), m |-> m, n |-> 1] : c \in {s.cb : s \in {x \in T : Matches(x.f, t)}}}
                   ELSE {[cb |-> c, t |-> Join(t), m |-> m, n |-> Cardinality({x \in T : x.cb = c /\ Matches(x.f, t)})] :
                           c \in {s.cb : s \in {x \in T : Matches(x.f, t)}}}

PeerPublish(t, q, pid, m) ==
  /\ q \in {0, 1}
  /\ disp' = Hits(tree, t, m)
  /\ wire' = IF q = 1 THEN <<[Pk("PUBACK", 0, 0) EXCEPT !.id = pid]>> ELSE <<>>
  /\ done' = <<>> /\ UNCHANGED <<nreq, q1, q2, sb, us, ping, tree, p2in, half>>
  /\ Log([a |-> "peerpublish", t |-> Join(t), q |-> q, id |-> pid, m |-> m, dup |-> FALSE])

PeerPublish2(t, pid, m, dup) ==
  /\ p2in' = IF \E i \in 1..Len(p2in) : p2in[i].id = pid THEN p2in
             ELSE Append(p2in, [id |-> pid, t |-> t, m |-> m, rel |-> FALSE])
  /\ wire' = <<[Pk("PUBREC", 0, 0) EXCEPT !.id = pid]>>
  /\ done' = <<>> /\ disp' = {} /\ UNCHANGED <<nreq, q1, q2, sb, us, ping, tree, half>>
  /\ Log([a |-> "peerpublish", t |-> Join(t), q |-> 2, id |-> pid, m |-> m, dup |-> dup])

RECURSIVE RelN(_)
RelN(s) == IF s = <<>> \/ ~Head(s).rel THEN 0 ELSE 1 + RelN(Tail(s))
PeerPubrel(pid) ==
  /\ LET mk == [i \in 1..Len(p2in) |-> IF p2in[i].id = pid THEN [p2in[i] EXCEPT !.rel = TRUE] ELSE p2in[i]]
         n == RelN(mk) IN
       /\ p2in' = SubSeq(mk, n + 1, Len(mk))
       /\ disp' = UNION {Hits(tree, mk[i].t, mk[i].m) : i \in 1..n}
  /\ wire' = <<[Pk("PUBCOMP", 0, 0) EXCEPT !.id = pid]>>
  /\ done' = <<>> /\ UNCHANGED <<nreq, q1, q2, sb, us, ping, tree, half>>
  /\ Log([a |-> "peerpubrel", id |-> pid])

-----------------------------------------------------------------------------
(* C12 / C20 as invariants of the design *)
InFlight == {q1[i].r : i \in 1..Len(q1)} \cup {q2[i].r : i \in 1..Len(q2)} \cup {sb[i].r : i \in 1..Len(sb)} \cup {us[i].r : i \in 1..Len(us)}
\* a completion fires only for a request that was in flight (or, QoS 0 / ping, just issued), and then it is gone: exactly once
CompleteOnce == [][\A i \in 1..Len(done') : done'[i] \notin {q1'[j].r : j \in 1..Len(q1')} \cup {q2'[j].r : j \in 1..Len(q2')}]_vars
\* once its terminal ack and those of all earlier requests of its kind have arrived, a request is completed:
\* no queue ever starts with an entry in its terminal state
HeadsPending == /\ (q1 # <<>> => Head(q1).st # "PUBACK") /\ (q2 # <<>> => Head(q2).st # "PUBCOMP")
                /\ (sb # <<>> => Head(sb).st # "SUBACK") /\ (us # <<>> => Head(us).st # "UNSUBACK")
\* never before the terminal ack: what fires in a peerack step was marked terminal no later than in that step
NotBeforeAck == [][(last'.a \notin {"peerack", "apppublish"}) => done' = <<>>]_vars
\* dispatch only through subscriptions whose SUBACK was released and not yet unsubscribed
DispatchSound == [][\A d \in disp' : \E s \in tree : s.cb = d.cb]_vars
TypeOK == HeadsPending

CoverView == <<abs, prev, last>>
Emit == hist = <<>> \/ PrintT(ToJson(hist))
EmitFull == steps < MaxSteps \/ PrintT(ToJson(hist))
=============================================================================
