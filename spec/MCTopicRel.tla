---- MODULE MCTopicRel ----
EXTENDS TopicRel
MCAlpha == {"a", "b", "", "+", "#", "a+", "#b"}
MCNameAlpha == {"a", "b", ""}
MCMixed == {"a+", "#b"}
====
