----------------------------- MODULE LifeTrace -----------------------------
(* Trace validation of the connection life cycle: events recorded from the real broker (hook
   verifLife in service/verif_on.go, emitted in the goroutine that does the step, numbered by
   one process-wide atomic counter taken at the hook) are checked to be a behaviour of `Life`.
   Every event is logged with its connection, so the search is linear; the invariants of Life
   are evaluated after every event.

   event        Life action                 logged facts that are bound
   start        Start(c, w)                 w = will flag of the CONNECT of this connection
   rcv.exit     RcvExit(c)
   snd.exit     SndExit(c)
   prc.exit     PrcExit(c)                  will flag as the processor leaves it = willOn[c]
   proc         Proc(c)                     (a packet was handled: only by a running processor)
   disc         Disc(c)
   stop.begin   Begin(c)
   stop.joined  Join(c)                     will flag read after the join = willOn[c]
   stop.will    Will(c)
   stop.done    Done(c)
   reset        a new recording (another broker) starts

   Connections are renumbered 1..N per recording by the recorder; events of connections that
   never started (failed handshakes call stop() on a service without goroutines) are dropped
   by the recorder.                                                                        *)
EXTENDS Integers, Sequences, TLC, Json

Trace == ndJsonDeserialize("trace.ndjson")
CONSTANT MaxConn
Conn == 1..MaxConn

VARIABLES rcv, prc, snd, stp, willOn, willed, discd, l
L == INSTANCE Life
tvars == <<rcv, prc, snd, stp, willOn, willed, discd, l>>

Ev == Trace[l]
Is(e) == l <= Len(Trace) /\ Ev.e = e /\ l' = l + 1

TInit == L!Init /\ l = 1

TStart  == Is("start") /\ L!Start(Ev.c, Ev.w = 1)
TRcv    == Is("rcv.exit") /\ L!RcvExit(Ev.c)
TSnd    == Is("snd.exit") /\ L!SndExit(Ev.c)
TPrc    == Is("prc.exit") /\ L!PrcExit(Ev.c) /\ (Ev.w = 1) = willOn[Ev.c]
TProc   == Is("proc") /\ L!Proc(Ev.c)
TDisc   == Is("disc") /\ L!Disc(Ev.c)
TBegin  == Is("stop.begin") /\ L!Begin(Ev.c)
TJoin   == Is("stop.joined") /\ L!Join(Ev.c) /\ (Ev.w = 1) = willOn[Ev.c]
TWill   == Is("stop.will") /\ L!Will(Ev.c)
TDone   == Is("stop.done") /\ L!Done(Ev.c)
\* the recorder closes a recording when all connections of its broker have been ended: every teardown has finished
TReset  == /\ Is("reset")
           /\ \A c \in Conn : prc[c] = "none" \/ stp[c] = "done"
           /\ rcv' = [c \in Conn |-> "none"] /\ prc' = [c \in Conn |-> "none"] /\ snd' = [c \in Conn |-> "none"]
           /\ stp' = [c \in Conn |-> "no"]
           /\ willOn' = [c \in Conn |-> FALSE] /\ willed' = [c \in Conn |-> FALSE] /\ discd' = [c \in Conn |-> FALSE]

TNext == TStart \/ TRcv \/ TSnd \/ TPrc \/ TProc \/ TDisc \/ TBegin \/ TJoin \/ TWill \/ TDone \/ TReset
TraceSpec == TInit /\ [][TNext]_tvars

\* all events are logged: one state per consumed event
Accepted == \/ TLCGet("stats").diameter - 1 = Len(Trace)
            \/ (PrintT(ToJson([report |-> [matched |-> TLCGet("stats").diameter - 1, len |-> Len(Trace)]])) /\ FALSE)

AtDone == L!AtDone
WillDealtWith == L!WillDealtWith
NeverAfterDisconnect == L!NeverAfterDisconnect
=============================================================================
