------------------------------ MODULE MCClient ------------------------------
EXTENDS Client
CONSTANT MaxReq

A == <<"a">>  AB == <<"a","b">>  AH == <<"a","#">>  AP == <<"a","+">>  SH == <<"sport","#">>

(* C12 sender side: up to MaxReq requests outstanding, the peer acknowledges in every order,
   with duplicates and identifiers that are not in flight (r = 0)                          *)
SenderNext == steps < MaxSteps /\
  \/ (nreq < MaxReq /\ \E q \in 0..2 : AppPublish(q))
  \/ (nreq < MaxReq /\ \E q \in 1..2 : AppPublishD(q, TRUE))
  \/ (nreq < MaxReq /\ (AppSubscribe(<<A>>) \/ AppUnsubscribe(<<A>>) \/ AppPing))
  \/ \E r \in 0..nreq : PeerPuback(r) \/ PeerPubrec(r) \/ PeerPubcomp(r) \/ PeerSuback(r, <<1>>) \/ PeerUnsuback(r)
  \/ PeerPingresp
SenderSpec == Init /\ [][SenderNext]_vars

(* the named deviation: an acknowledgement processed between write and register *)
DevNext == steps < MaxSteps /\
  \/ (nreq < MaxReq /\ \E q \in 1..2 : AppPublish(q))
  \/ (nreq < MaxReq /\ AppSubscribe(<<A>>))
  \/ Register
  \/ \E r \in 1..nreq : PeerPuback(r) \/ PeerPubrec(r) \/ PeerPubcomp(r) \/ PeerSuback(r, <<1>>)
DevSpec == Init /\ [][DevNext]_vars

(* many requests of one kind outstanding (the ack queue grows beyond its initial 16 entries, also after its
   head has moved): long random behaviours generated with TLC -simulate                                   *)
ManyNext == steps < MaxSteps /\
  \* registering is twice as likely as acknowledging: the queues grow beyond 16 while their heads move
  \/ (nreq < MaxReq /\ \E k \in 1..4 : AppPublish(1))
  \/ (nreq < MaxReq /\ \E k \in 1..2 : AppPublish(2))
  \/ (q1 # <<>> /\ PeerPuback(Head(q1).r))
  \/ (q1 # <<>> /\ PeerPuback(q1[Len(q1)].r))
  \/ (\E i \in 1..Len(q2) : (q2[i].st = "none" /\ (\A j \in 1..i-1 : q2[j].st # "none")) /\ PeerPubrec(q2[i].r))
  \/ (q2 # <<>> /\ Head(q2).st = "PUBREC" /\ PeerPubcomp(Head(q2).r))
ManyFinish == steps = MaxSteps /\ steps' = steps + 1 /\ UNCHANGED <<nreq, q1, q2, sb, us, ping, tree, p2in, half, wire, done, disp, last, prev, hist>>
ManySpec == Init /\ [][ManyNext \/ ManyFinish]_vars
EmitMany == steps <= MaxSteps \/ PrintT(ToJson(hist))

(* C20 dispatch: subscribe requests with overlapping filters, rejected filters, unsubscribe,
   inbound PUBLISH at QoS 0..2 with duplicates, matching and non-matching topics             *)
DispNext == steps < MaxSteps /\
  \/ (nreq < MaxReq /\ \E fs \in {<<AH>>, <<AH, AP>>, <<AB>>, <<SH, A>>, <<A, AH>>, <<A>>} : AppSubscribe(fs))
  \/ (nreq < MaxReq /\ \E fs \in {<<AH>>, <<AB, AP>>, <<AB, A>>, <<A, AB>>} : AppUnsubscribe(fs))    \* also filters never subscribed next to subscribed ones
  \/ \E r \in 1..nreq, cs \in {<<0>>, <<128>>, <<0, 1>>, <<128, 2>>} :
        ((\E i \in 1..Len(sb) : sb[i].r = r /\ Len(sb[i].fs) = Len(cs)) /\ PeerSuback(r, cs))
  \/ \E r \in 1..nreq : PeerUnsuback(r)
  \/ \E t \in {AB, A, <<"sport">>, <<"c">>}, q \in 0..1 : PeerPublish(t, q, 11, "x")
  \* messages with the RETAIN flag, with and without payload (what a broker sends for a retained message, or forwards when
  \* one is cleared), and an empty payload without the flag: messages like any others for the callbacks
  \/ \E q \in 0..1, m \in {"Rx", "R", ""} : PeerPublish(AB, q, 11, m)
  \/ \E t \in {AB, <<"sport">>} : PeerPublish2(t, 12, "y", FALSE) \/ PeerPublish2(t, 12, "z", TRUE)
  \/ PeerPubrel(12)
DispSpec == Init /\ [][DispNext]_vars

(* C02 / C20, client as receiver of QoS 2 messages while the peer also sends acknowledgements that carry the identifier of
   an open inbound exchange (the two directions number their packets independently, so the client's first request and
   the peer's first message may both be number 1): all paths over two inbound exchanges released in any order with
   PUBREC / PUBACK / PUBCOMP for request 1 in between                                                         *)
InStrayNext == steps < MaxSteps /\
  \/ (nreq = 0 /\ AppSubscribe(<<AH>>))
  \/ (nreq = 1 /\ sb # <<>> /\ PeerSuback(1, <<0>>))
  \/ (nreq = 1 /\ sb = <<>> /\
        \/ \E pid \in {1, 2} : PeerPublish2(AB, pid, IF pid = 1 THEN "y" ELSE "z", FALSE)
        \/ \E pid \in {1, 2} : PeerPubrel(pid)
        \/ (p2in # <<>> /\ (PeerPubrec(1) \/ PeerPuback(1) \/ PeerPubcomp(1))))
InStraySpec == Init /\ [][InStrayNext]_vars

(* C20 / C02, client role: many inbound QoS 2 exchanges open at once (a server may send as many PUBLISHes as it likes
   before the first PUBREL): the queue of incoming exchanges grows beyond its 16 entries after its head has moved.
   Long random behaviours generated with TLC -simulate; one payload per packet identifier, identifiers round-robin. *)
InOpen == {p2in[i].id : i \in 1..Len(p2in)}
InManyNext == steps < MaxSteps /\
  \/ (nreq = 0 /\ AppSubscribe(<<AH>>))
  \/ (nreq = 1 /\ sb # <<>> /\ PeerSuback(1, <<0>>))
  \/ (nreq = 1 /\ sb = <<>> /\
        \/ \E n \in 1..3 : \E pid \in {i \in 1..40 : i \notin InOpen /\ i = ((steps * 7) % 40) + 1} :
              PeerPublish2(AB, pid, "m" \o ToString(pid), FALSE)
        \/ (p2in # <<>> /\ PeerPubrel(Head(p2in).id))
        \/ (Len(p2in) > 1 /\ PeerPubrel(p2in[Len(p2in)].id)))
InManySpec == Init /\ [][InManyNext \/ ManyFinish]_vars

(* C20, the local subscription tree over EVERY history of subscribe / unsubscribe requests of a given length (requests
   naming filters the tree knows and filters it does not, repeated filters, any order), observed by one probe publish
   at the end: what the tree has become is implementation state that one witness per transition does not pin down   *)
TreeMut == \/ (nreq < MaxReq /\ \E fs \in {<<A>>, <<AB>>, <<A, AB>>, <<AH>>} : AppSubscribe(fs))
           \/ (nreq < MaxReq /\ \E fs \in {<<A>>, <<AB, A>>, <<A, AB>>, <<AH, AB>>, <<AB, AB>>} : AppUnsubscribe(fs))
           \/ \E r \in 1..nreq, cs \in {<<0>>, <<0, 1>>} :
                 ((\E i \in 1..Len(sb) : sb[i].r = r /\ Len(sb[i].fs) = Len(cs)) /\ PeerSuback(r, cs))
           \/ \E r \in 1..nreq : PeerUnsuback(r)
TreeLastNext == steps < MaxSteps /\ IF steps < MaxSteps - 1 THEN TreeMut ELSE \E t \in {A, AB}, m \in {"x", "R"} : PeerPublish(t, 0, 11, m)
TreeLastSpec == Init /\ [][TreeLastNext]_vars
=============================================================================
