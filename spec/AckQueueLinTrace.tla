------------------------- MODULE AckQueueLinTrace -------------------------
(* Linearizability of sessions.Ackqueue under concurrent callers (C13, C12: the application
   goroutine registers requests with Wait while the processor goroutine of the same
   connection acknowledges with Ack and releases with Acked).  Every method is one critical
   section under Ackqueue.mu in another package, so the linearization point cannot be hooked:
   `call` and `ret` events are logged around each call (sequence numbers from one atomic
   counter, taken before the call starts and after it has returned), the effect is an
   UNLOGGED step Lin(id) - the AckQueue action itself - that TLC places between them.

   A recording is one trial: a deterministic sequential prefix that brings a fresh queue to a
   chosen ring state (event `setup`: n registered, the first rel acknowledged and released,
   more registered: the ring head has moved, the ring is full or nearly full), then a few
   calls started at the same moment by different goroutines (one of them a Wait that makes a
   full ring grow), then a sequential drain.  The drain shows whether any request or
   acknowledgement was lost or attached to the wrong entry.                                *)
EXTENDS AckQueue

Trace == ndJsonDeserialize("trace.ndjson")
VARIABLES pend,   \* calls in progress: id -> [op, kind, pid, ty, c, lin, out]
          l
tvars == <<vars, pend, l>>

Ev == Trace[l]
TInit == Init /\ pend = <<>> /\ l = 1

Entry(i) == [id |-> i, kind |-> "pub1", c |-> "x", state |-> "none", ac |-> ""]
\* the state after: Wait ids 1..n, Ack(PUBACK) ids 1..rel, Acked, Wait ids n+1..n+more  (no growth: n <= InitSize, more <= rel)
Setup == /\ l <= Len(Trace) /\ Ev.ev = "setup" /\ Ev.n <= InitSize /\ Ev.more <= Ev.rel /\ Ev.rel <= Ev.n
         /\ pend = <<>>
         /\ q' = [i \in 1..(Ev.n - Ev.rel + Ev.more) |-> Entry(Ev.rel + i)]
         /\ ping' = NoPing /\ size' = InitSize /\ head' = Ev.rel % InitSize /\ tail' = (Ev.n + Ev.more) % InitSize
         /\ grown' = [n |-> 0, wrapped |-> 0]
         /\ l' = l + 1 /\ UNCHANGED <<last, steps, hist, pend>>

\* tens of thousands of requests in flight (packet identifiers run up to 65535): n registered one after the other on a
\* fresh queue, nothing acknowledged yet; the ring has doubled from InitSize until it holds them
RECURSIVE SizeFor(_, _)
SizeFor(n, s) == IF n <= s THEN s ELSE SizeFor(n, 2 * s)
BigSetup == /\ l <= Len(Trace) /\ Ev.ev = "bigsetup" /\ pend = <<>>
            /\ q' = [i \in 1..Ev.n |-> Entry(i)]
            /\ ping' = NoPing /\ size' = SizeFor(Ev.n, InitSize) /\ head' = 0 /\ tail' = Ev.n % SizeFor(Ev.n, InitSize)
            /\ grown' = [n |-> 0, wrapped |-> 0]
            /\ l' = l + 1 /\ UNCHANGED <<last, steps, hist, pend>>

Call == /\ l <= Len(Trace) /\ Ev.ev = "call"
        /\ pend' = pend @@ (Ev.id :> [op |-> Ev.op, pid |-> Ev.pid, ty |-> Ev.ty, lin |-> FALSE, out |-> <<>>])
        /\ l' = l + 1 /\ UNCHANGED vars

Lin(id) ==
  /\ ~pend[id].lin
  /\ LET c == pend[id] IN
       \/ (c.op = "wait" /\ Wait("pub1", c.pid, "x") /\ pend' = [pend EXCEPT ![id].lin = TRUE])
       \/ (c.op = "ack" /\ Ack(c.ty, c.pid, "x") /\ pend' = [pend EXCEPT ![id].lin = TRUE])
       \/ (c.op = "acked" /\ Acked /\ pend' = [pend EXCEPT ![id].lin = TRUE, ![id].out = last'.r.out])
  /\ UNCHANGED l

Ret == /\ l <= Len(Trace) /\ Ev.ev = "ret"
       /\ Ev.id \in DOMAIN pend /\ pend[Ev.id].lin
       /\ (pend[Ev.id].op = "acked") =>
             /\ Len(pend[Ev.id].out) = Len(Ev.out)
             /\ \A i \in 1..Len(Ev.out) : pend[Ev.id].out[i].id = Ev.out[i].id /\ pend[Ev.id].out[i].state = Ev.out[i].state
       /\ pend' = [i \in DOMAIN pend \ {Ev.id} |-> pend[i]]
       /\ l' = l + 1 /\ UNCHANGED vars

\* sequential drain, first half: every entry still queued is acknowledged with PUBACK (one event for the whole loop)
AckAll == /\ l <= Len(Trace) /\ Ev.ev = "ackall" /\ pend = <<>>
          /\ q' = [i \in 1..Len(q) |-> [q[i] EXCEPT !.state = "PUBACK", !.ac = "x"]]
          /\ l' = l + 1 /\ UNCHANGED <<ping, size, head, tail, last, steps, hist, grown, pend>>

\* the end of a trial: nothing in progress, and the sequential drain has emptied the queue
Reset == /\ l <= Len(Trace) /\ Ev.ev = "reset"
         /\ pend = <<>> /\ q = <<>>
         /\ l' = l + 1 /\ UNCHANGED <<vars, pend>>

TNext == Setup \/ BigSetup \/ Call \/ Ret \/ AckAll \/ Reset \/ \E id \in DOMAIN pend : Lin(id)
TraceSpec == TInit /\ [][TNext]_tvars

HighWater == TLCSet(1, IF TLCGet(1) > l THEN TLCGet(1) ELSE l)
Accepted == \/ TLCGet(1) = Len(Trace) + 1
            \/ (PrintT(ToJson([highwater |-> TLCGet(1)])) /\ FALSE)
ASSUME TLCSet(1, 0)
=============================================================================
