-------------------------------- MODULE Codec --------------------------------
(* Reference wire codec for the 14 MQTT 3.1.1 control packets, written from the
   OASIS standard (section numbers in comments), not from the implementation.

   A message is a record; strings and payloads are (length, seed) pairs.  Wire(m) is
   the sequence of segments  [k |-> "b", v |-> byte]  or  [k |-> "f", n |-> length,
   s |-> seed]: every structure byte (fixed header, remaining length, length
   prefixes, flags, packet identifiers, return codes) is computed here; only bulk
   content is expanded by the replayer from the seed.

   Cases   the product of boundary classes the replayer runs through the public API
   Parse   a total parser on explicit short byte strings (C04)                       *)
EXTENDS Integers, Sequences, FiniteSets, TLC, Json

\* 2.2.3 Remaining Length: 7 bits per byte, least significant group first
RECURSIVE Varint(_)
Varint(n) == IF n < 128 THEN <<n>> ELSE <<128 + (n % 128)>> \o Varint(n \div 128)
U16(n) == <<n \div 256, n % 256>>
B(v) == [k |-> "b", v |-> v, n |-> 1, s |-> 0]
Bs(seq) == [i \in 1..Len(seq) |-> B(seq[i])]
Fill(n, s) == IF n = 0 THEN <<>> ELSE <<[k |-> "f", v |-> 0, n |-> n, s |-> s]>>
LP(n, s) == Bs(U16(n)) \o Fill(n, s)          \* 1.5.3 UTF-8 encoded strings: 2-byte length prefix
RECURSIVE Size(_)
Size(segs) == IF segs = <<>> THEN 0 ELSE Head(segs).n + Size(Tail(segs))
Frame(first, body) == <<B(first)>> \o Bs(Varint(Size(body))) \o body

\* seeds: 1 topic, 2 payload, 3 client id, 4 will topic, 5 will message, 6 user, 7 password,
\* 10+i the i-th topic of a SUBSCRIBE / UNSUBSCRIBE; protocol names are explicit bytes
ProtoName(ver) == IF ver = 4 THEN <<77, 81, 84, 84>> ELSE <<77, 81, 73, 115, 100, 112>>   \* "MQTT" / "MQIsdp"

-----------------------------------------------------------------------------
(* 3.1 CONNECT *)
ConnectFlags(c) == 128 * (IF c.ul > 0 THEN 1 ELSE 0) + 64 * (IF c.pwl > 0 THEN 1 ELSE 0)
                   + 32 * c.wr + 8 * c.wq + 4 * c.will + 2 * c.clean
ConnectWire(c) ==
  Frame(16, Bs(U16(Len(ProtoName(c.ver)))) \o Bs(ProtoName(c.ver)) \o <<B(c.ver), B(ConnectFlags(c))>> \o Bs(U16(c.ka))
            \o LP(c.cidl, 3)
            \o (IF c.will = 1 THEN LP(c.wtl, 4) \o LP(c.wml, 5) ELSE <<>>)
            \o (IF c.ul > 0 THEN LP(c.ul, 6) ELSE <<>>)
            \o (IF c.pwl > 0 THEN LP(c.pwl, 7) ELSE <<>>))
WillVariants == {[will |-> 0, wq |-> 0, wr |-> 0, wtl |-> 0, wml |-> 0]} \cup
                {[will |-> 1, wq |-> q, wr |-> r, wtl |-> tl, wml |-> ml] :
                   q \in 0..2, r \in 0..1, tl \in {1, 127}, ml \in {0, 128}} \cup
                {[will |-> 1, wq |-> 1, wr |-> 0, wtl |-> 128, wml |-> 65535],
                 [will |-> 1, wq |-> 2, wr |-> 1, wtl |-> 65535, wml |-> 16384]}
ConnectCases ==
  {[ty |-> "CONNECT", ver |-> ver, clean |-> cl, will |-> w.will, wq |-> w.wq, wr |-> w.wr, wtl |-> w.wtl, wml |-> w.wml,
    ul |-> up[1], pwl |-> up[2], ka |-> ka, cidl |-> cidl] :
     ver \in {3, 4}, cl \in 0..1, w \in WillVariants, ka \in {0, 65535}, cidl \in {1, 23, 32},
     up \in {<<0, 0>>, <<1, 0>>, <<1, 127>>, <<128, 0>>, <<128, 127>>}} \cup    \* [MQTT-3.1.2-22] no password without user name
  {[ty |-> "CONNECT", ver |-> 4, clean |-> 1, will |-> 0, wq |-> 0, wr |-> 0, wtl |-> 0, wml |-> 0,
    ul |-> ul, pwl |-> 0, ka |-> 60, cidl |-> 0] : ul \in {0, 65535}}     \* zero-length client id needs CleanSession 1

(* 3.2 CONNACK *)
ConnackCases == {[ty |-> "CONNACK", sp |-> sp, code |-> rc] : sp \in 0..1, rc \in 0..5}
ConnackWire(c) == <<B(32), B(2), B(c.sp), B(c.code)>>

(* 3.3 PUBLISH: the packet identifier is present iff QoS > 0 *)
StrLens == {1, 2, 127, 128, 16383, 16384, 65535}
PubPayLens(q) == LET h == IF q = 0 THEN 3 ELSE 5 IN     \* remaining length = h + payload for a 1-byte topic
   {0, 1, 127 - h, 128 - h, 16383 - h, 16384 - h, 2097151 - h, 2097152 - h}
PublishCases ==
  {[ty |-> "PUBLISH", dup |-> d, q |-> q, r |-> r, tl |-> 1, id |-> id, pl |-> pl] :
     d \in 0..1, q \in 0..2, r \in 0..1, id \in {1, 255, 256, 65535}, pl \in UNION {PubPayLens(qq) : qq \in 0..2}} \cup
  {[ty |-> "PUBLISH", dup |-> 0, q |-> q, r |-> r, tl |-> tl, id |-> 258, pl |-> pl] :
     q \in 0..2, r \in 0..1, tl \in StrLens, pl \in {0, 1, 70000}}
PublishWire(p) ==
  Frame(48 + 8 * p.dup + 2 * p.q + p.r,
        LP(p.tl, 1) \o (IF p.q > 0 THEN Bs(U16(p.id)) ELSE <<>>) \o Fill(p.pl, 2))

(* 3.4 - 3.7, 3.11 acknowledgements: fixed header flags 0 except PUBREL (2) *)
AckFirst == [PUBACK |-> 64, PUBREC |-> 80, PUBREL |-> 98, PUBCOMP |-> 112, UNSUBACK |-> 176]
\* id 0 stands for a message whose identifier was never set: not a packet a peer may send (2.3.1), but the message API
\* builds it, and what Encode writes for it is 0 0 (encode direction only)
AckCases == {[ty |-> t, id |-> id] : t \in DOMAIN AckFirst, id \in {0, 1, 255, 256, 65535}}
AckWire(c) == <<B(AckFirst[c.ty]), B(2)>> \o Bs(U16(c.id))

(* 3.8 SUBSCRIBE, 3.10 UNSUBSCRIBE: k topic filters; pattern = requested QoS of filter i *)
\* filter i has length tl, except that the first filter has length tl1 when tl1 > 0 (a long filter followed by short
\* ones: the remaining length crosses a varint boundary while the last list entries are shorter than the fixed header)
TlOf(c, i) == IF i = 1 /\ c.tl1 > 0 THEN c.tl1 ELSE c.tl
\* content of filter i: normally all filters of a request differ; with dupf = 1 they alternate between two contents, so
\* that a request with 3 or more filters repeats filters (3.8.3 / 3.10.3 do not forbid it; every entry is answered)
SeedOf(c, i) == 10 + (IF c.dupf = 1 THEN i % 2 ELSE i)
LongFirst == (110..130) \cup (16365..16385)
RECURSIVE SubTopics(_, _)
SubTopics(i, c) ==
  IF i > c.k THEN <<>> ELSE LP(TlOf(c, i), SeedOf(c, i)) \o <<B(IF c.pat = 3 THEN i % 3 ELSE c.pat)>> \o SubTopics(i + 1, c)
SubscribeCases == {[ty |-> "SUBSCRIBE", id |-> id, k |-> k, tl |-> tl, tl1 |-> 0, pat |-> pat, dupf |-> 0] :
                     id \in {1, 255, 256, 65535}, k \in 1..9, tl \in {1, 2, 127, 128}, pat \in {0, 2, 3}} \cup
                  {[ty |-> "SUBSCRIBE", id |-> 7, k |-> k, tl |-> 65535, tl1 |-> 0, pat |-> 1, dupf |-> 0] : k \in {1, 3}} \cup
                  {[ty |-> "SUBSCRIBE", id |-> 7, k |-> k, tl |-> tl, tl1 |-> l1, pat |-> 3, dupf |-> 0] : k \in {2, 3}, tl \in {1, 2}, l1 \in LongFirst}
SubscribeDupCases == {[ty |-> "SUBSCRIBE", id |-> 9, k |-> k, tl |-> tl, tl1 |-> 0, pat |-> 3, dupf |-> 1] : k \in 2..9, tl \in {1, 3}}
SubscribeWire(c) == Frame(130, Bs(U16(c.id)) \o SubTopics(1, c))
RECURSIVE UnsubTopics(_, _)
UnsubTopics(i, c) == IF i > c.k THEN <<>> ELSE LP(TlOf(c, i), SeedOf(c, i)) \o UnsubTopics(i + 1, c)
UnsubscribeCases == {[ty |-> "UNSUBSCRIBE", id |-> id, k |-> k, tl |-> tl, tl1 |-> 0, dupf |-> 0] :
                       id \in {1, 255, 256, 65535}, k \in 1..9, tl \in {1, 2, 3, 127, 128}} \cup
                    {[ty |-> "UNSUBSCRIBE", id |-> 7, k |-> k, tl |-> 65535, tl1 |-> 0, dupf |-> 0] : k \in {1, 3}} \cup
                    {[ty |-> "UNSUBSCRIBE", id |-> 7, k |-> k, tl |-> tl, tl1 |-> l1, dupf |-> 0] : k \in {2, 3}, tl \in {1, 2, 3}, l1 \in LongFirst}
UnsubscribeDupCases == {[ty |-> "UNSUBSCRIBE", id |-> 9, k |-> k, tl |-> tl, tl1 |-> 0, dupf |-> 1] : k \in 2..9, tl \in {1, 3}}
UnsubscribeWire(c) == Frame(162, Bs(U16(c.id)) \o UnsubTopics(1, c))

(* 3.9 SUBACK: one return code per filter *)
Code(pat, i) == IF pat = 3 THEN <<0, 1, 2, 128>>[(i % 4) + 1] ELSE pat
SubackCases == {[ty |-> "SUBACK", id |-> id, k |-> k, pat |-> pat] :
                  id \in {1, 255, 256, 65535}, k \in {1, 2, 3, 4, 5, 9, 125, 126, 300}, pat \in {0, 2, 128, 3}}
SubackWire(c) == Frame(144, Bs(U16(c.id)) \o [i \in 1..c.k |-> B(Code(c.pat, i))])

(* 3.12 - 3.14 *)
EmptyFirst == [PINGREQ |-> 192, PINGRESP |-> 208, DISCONNECT |-> 224]
EmptyCases == {[ty |-> t] : t \in DOMAIN EmptyFirst}
EmptyWire(c) == <<B(EmptyFirst[c.ty]), B(0)>>

Cases == ConnectCases \cup ConnackCases \cup PublishCases \cup AckCases \cup SubscribeCases \cup SubscribeDupCases
         \cup UnsubscribeCases \cup UnsubscribeDupCases \cup SubackCases \cup EmptyCases
Wire(c) == CASE c.ty = "CONNECT" -> ConnectWire(c)
             [] c.ty = "CONNACK" -> ConnackWire(c)
             [] c.ty = "PUBLISH" -> PublishWire(c)
             [] c.ty \in DOMAIN AckFirst -> AckWire(c)
             [] c.ty = "SUBSCRIBE" -> SubscribeWire(c)
             [] c.ty = "UNSUBSCRIBE" -> UnsubscribeWire(c)
             [] c.ty = "SUBACK" -> SubackWire(c)
             [] OTHER -> EmptyWire(c)

-----------------------------------------------------------------------------
(* Non-minimal remaining length (2.2.3 does not forbid it, and the implementation's readers accept it): the same packet
   with the length field padded to more bytes.  A decoder may refuse such a packet, but if it accepts it, the fields
   and the byte count must be those of the packet - and it may never crash on it.                                   *)
RECURSIVE PadVarint(_, _)
PadVarint(v, pad) == IF pad = 0 THEN v
                     ELSE PadVarint([i \in 1..Len(v) + 1 |-> IF i < Len(v) THEN v[i] ELSE IF i = Len(v) THEN v[i] + 128 ELSE 0], pad - 1)
VarLenOf(c) == LET n == Size(Wire(c)) IN IF n - 2 < 128 THEN 1 ELSE IF n - 3 < 16384 THEN 2 ELSE IF n - 4 < 2097152 THEN 3 ELSE 4
PadWire(c, pad) == LET w == Wire(c)  vl == VarLenOf(c)  n == Size(w) - 1 - vl      \* w = first byte, vl length bytes, body
                   IN <<w[1]>> \o Bs(PadVarint(Varint(n), pad)) \o SubSeq(w, 2 + vl, Len(w))
PadBase == {c \in PublishCases : c.pl \in {0, 1} /\ c.tl \in {1, 2, 127, 128}} \cup ConnackCases \cup {c \in AckCases : c.id > 0} \cup EmptyCases
           \cup {c \in SubscribeCases \cup UnsubscribeCases : c.k <= 2 /\ c.tl <= 2 /\ c.tl1 = 0 /\ c.id = 1}
           \cup {c \in SubackCases : c.k <= 2 /\ c.id = 1}
           \cup {c \in ConnectCases : c.ver = 4 /\ c.ka = 0 /\ c.cidl = 1 /\ c.wtl <= 1 /\ c.wml = 0 /\ c.ul <= 1 /\ c.pwl = 0}
Pads == {[case |-> c, pad |-> pad] : c \in PadBase, pad \in 1..3} 

(* Messages are mutable: a message - in particular one that came out of Decode, as in the broker, which lowers the QoS
   of a received PUBLISH and replaces keep-alive / client identifier of a received CONNECT - can be changed through
   its setters and encoded again.  What Encode writes then is the wire form of the NEW field values.
   from: the case whose wire form is decoded; to: the case whose fields are then set (only the setters of fields that
   differ are called); auto: the packet identifier is not set by the caller but left to the library (QoS 0 -> 1/2).
   The same pairs carry two more obligations about messages as objects: (reuse) Decode of `to`'s wire form into the object
   that holds the decoded `from` leaves exactly `to`'s fields - a message object may be used for more than one packet;
   (clone) a clone of `from`, then a clone of `to`, then changes to the original: both clones keep their fields and encode
   to the wire forms of the messages they were cloned from - clones share nothing with each other or the original.   *)
SmallPub == {[ty |-> "PUBLISH", dup |-> d, q |-> q, r |-> r, tl |-> tl, id |-> id, pl |-> pl] :
               d \in 0..1, q \in 0..2, r \in 0..1, tl \in {1, 2}, id \in {1, 258}, pl \in {0, 3}}
SmallConn == {[ty |-> "CONNECT", ver |-> ver, clean |-> cl, will |-> w.will, wq |-> w.wq, wr |-> w.wr, wtl |-> w.wtl, wml |-> w.wml,
               ul |-> up[1], pwl |-> up[2], ka |-> ka, cidl |-> cidl] :
               ver \in {3, 4}, cl \in 0..1, ka \in {0, 30}, cidl \in {1, 15},
               w \in {[will |-> 0, wq |-> 0, wr |-> 0, wtl |-> 0, wml |-> 0], [will |-> 1, wq |-> 1, wr |-> 1, wtl |-> 2, wml |-> 0],
                      [will |-> 1, wq |-> 2, wr |-> 0, wtl |-> 1, wml |-> 3]},
               up \in {<<0, 0>>, <<1, 0>>, <<2, 1>>}}
SmallSub == {c \in SubscribeCases : c.id = 1 /\ c.k <= 3 /\ c.tl = 1 /\ c.tl1 = 0 /\ c.pat = 3}
SmallUnsub == {c \in UnsubscribeCases : c.id = 1 /\ c.k <= 3 /\ c.tl = 1 /\ c.tl1 = 0}
OneGroup(a, b) == \* CONNECT pairs differ in exactly one group of fields
  Cardinality({g \in {"ver", "clean", "ka", "cid", "will", "cred"} :   \* "ver": protocol level 3 <-> 4, the protocol name follows it (SetVersion)
     CASE g = "ver" -> a.ver # b.ver [] g = "clean" -> a.clean # b.clean [] g = "ka" -> a.ka # b.ka [] g = "cid" -> a.cidl # b.cidl
       [] g = "will" -> <<a.will, a.wq, a.wr, a.wtl, a.wml>> # <<b.will, b.wq, b.wr, b.wtl, b.wml>>
       [] OTHER -> <<a.ul, a.pwl>> # <<b.ul, b.pwl>>}) = 1
Mods == {[from |-> a, to |-> b, auto |-> au] : a \in SmallPub, b \in SmallPub, au \in BOOLEAN} \cup
        {[from |-> a, to |-> b, auto |-> FALSE] : a \in SmallConn, b \in SmallConn} \cup
        {[from |-> a, to |-> b, auto |-> FALSE] : a \in SmallSub, b \in SmallSub} \cup
        {[from |-> a, to |-> b, auto |-> FALSE] : a \in SmallUnsub, b \in SmallUnsub}
ModOK(m) == /\ m.from # m.to
            /\ m.from.ty = "PUBLISH" => /\ (m.auto => m.from.q = 0 /\ m.to.q > 0 /\ m.to.id = 1)
                                        /\ (m.from.q = 0 => m.from.id = 1 /\ m.from.dup = 0) /\ (m.to.q = 0 => m.to.id = 1 /\ m.to.dup = 0)   \* no identifier, no DUP at QoS 0
            /\ m.from.ty = "CONNECT" => OneGroup(m.from, m.to)
            /\ m.from.ty \in {"SUBSCRIBE", "UNSUBSCRIBE"} => m.from.k # m.to.k     \* topics added at the end / removed from the end

(* The filter list of a SUBSCRIBE / UNSUBSCRIBE is edited through AddTopic / RemoveTopic at ANY position: the message is a
   list of (filter, requested QoS) entries; RemoveTopic deletes the entry of that filter (if there is one), AddTopic
   replaces the QoS of the filter's entry or appends a new entry.  What Encode writes is the wire form of the list.
   Filter j has two bytes of content, seed 10 + j.  dec: the initial list comes out of Decode (else it is built through
   the API on a new message).                                                                                       *)
EditOps(ty) == {<<"rm", j, 0>> : j \in 1..4} \cup {<<"add", j, q>> : j \in 1..4, q \in (IF ty = "SUBSCRIBE" THEN {0, 2} ELSE {0})}
EditSeqs(ty) == UNION {[1..n -> EditOps(ty)] : n \in 1..3}
Has(l, j) == \E i \in 1..Len(l) : l[i][1] = j
ApplyOp(l, op) == IF op[1] = "rm" THEN SelectSeq(l, LAMBDA e : e[1] # op[2])
                  ELSE IF Has(l, op[2]) THEN [i \in 1..Len(l) |-> IF l[i][1] = op[2] THEN <<op[2], op[3]>> ELSE l[i]]
                  ELSE Append(l, <<op[2], op[3]>>)
RECURSIVE ApplyOps(_, _)
ApplyOps(l, ops) == IF ops = <<>> THEN l ELSE ApplyOps(ApplyOp(l, Head(ops)), Tail(ops))
EditBase(ty) == [j \in 1..3 |-> <<j, IF ty = "SUBSCRIBE" THEN j % 3 ELSE 0>>]
RECURSIVE ListWire(_, _)
ListWire(ty, l) == IF l = <<>> THEN <<>> ELSE LP(2, 10 + Head(l)[1]) \o (IF ty = "SUBSCRIBE" THEN <<B(Head(l)[2])>> ELSE <<>>) \o ListWire(ty, Tail(l))
EditWire(ty, l) == Frame(IF ty = "SUBSCRIBE" THEN 130 ELSE 162, Bs(U16(7)) \o ListWire(ty, l))
Edits == {[ty |-> ty, dec |-> d, ops |-> ops] : ty \in {"SUBSCRIBE", "UNSUBSCRIBE"}, d \in BOOLEAN, ops \in UNION {EditSeqs(t) : t \in {"SUBSCRIBE", "UNSUBSCRIBE"}}}
EditOK(e) == e.ops \in EditSeqs(e.ty) /\ ApplyOps(EditBase(e.ty), e.ops) # <<>>

-----------------------------------------------------------------------------
(* Total parser on explicit byte strings.  Strict: whatever is doubtful is rejected (an input
   the parser rejects puts no obligation on the implementation beyond not crashing).       *)
Bad == [ok |-> FALSE, ty |-> 0, len |-> 0, id |-> 0, q |-> 0, dup |-> 0, r |-> 0, tl |-> 0, pl |-> 0,
        sp |-> 0, rc |-> 0, k |-> 0, codes |-> <<>>]
RECURSIVE VarAt(_, _, _, _)
VarAt(x, i, mult, k) ==            \* <<value, number of bytes>> or <<-1, 0>>
  IF i > Len(x) \/ k > 4 THEN <<-1, 0>>
  ELSE IF x[i] < 128 THEN <<x[i] * mult, k>>
  ELSE LET r == VarAt(x, i + 1, mult * 128, k + 1) IN
       IF r[1] < 0 THEN r ELSE <<(x[i] - 128) * mult + r[1], r[2]>>
W16(x, i) == x[i] * 256 + x[i + 1]

\* a list of length-prefixed non-empty strings, each followed by `extra` bytes, filling [b, e]
RECURSIVE ListOK(_, _, _, _, _)
ListOK(x, b, e, extra, cnt) ==      \* number of entries, or -1
  IF b = e + 1 THEN (IF cnt > 0 THEN cnt ELSE -1)
  ELSE IF b + 1 > e THEN -1
  ELSE LET l == W16(x, b) IN
       IF l = 0 \/ b + 2 + l + extra - 1 > e THEN -1
       ELSE IF extra = 1 /\ x[b + 2 + l] > 2 THEN -1
       ELSE ListOK(x, b + 2 + l + extra, e, extra, cnt + 1)

Parse(x) ==
  IF Len(x) < 2 THEN Bad
  ELSE LET ty == x[1] \div 16   fl == x[1] % 16   rl == VarAt(x, 2, 1, 1) IN
    IF rl[1] < 0 \/ 1 + rl[2] + rl[1] > Len(x) THEN Bad
    ELSE LET b == 2 + rl[2]  n == rl[1]  tot == 1 + rl[2] + rl[1]  e == tot
             ok == [Bad EXCEPT !.ok = TRUE, !.ty = ty, !.len = tot] IN
      CASE ty \in {4, 5, 7, 11} /\ fl = 0 /\ n = 2 /\ W16(x, b) > 0 -> [ok EXCEPT !.id = W16(x, b)]
        [] ty = 6 /\ fl = 2 /\ n = 2 /\ W16(x, b) > 0               -> [ok EXCEPT !.id = W16(x, b)]
        [] ty \in {12, 13, 14} /\ fl = 0 /\ n = 0  -> ok
        [] ty = 2 /\ fl = 0 /\ n = 2 /\ x[b] \in {0, 1} /\ x[b + 1] <= 5 -> [ok EXCEPT !.sp = x[b], !.rc = x[b + 1]]
        [] ty = 3 /\ (fl \div 2) % 4 # 3 /\ n >= 2 ->
             LET tl == W16(x, b)  q == (fl \div 2) % 4  idl == IF q > 0 THEN 2 ELSE 0 IN
             IF tl = 0 \/ 2 + tl + idl > n THEN Bad
             ELSE IF \E i \in b + 2 .. b + 1 + tl : x[i] \in {35, 43} THEN Bad    \* wildcard in a topic name
             ELSE IF q > 0 /\ W16(x, b + 2 + tl) = 0 THEN Bad
             ELSE IF q = 0 /\ fl \div 8 = 1 THEN Bad                              \* DUP must be 0 for QoS 0
             ELSE [ok EXCEPT !.q = q, !.dup = fl \div 8, !.r = fl % 2, !.tl = tl, !.pl = n - 2 - tl - idl,
                             !.id = IF q > 0 THEN W16(x, b + 2 + tl) ELSE 0]
        [] ty = 9 /\ fl = 0 /\ n >= 3 /\ W16(x, b) > 0 /\ (\A i \in b + 2 .. e : x[i] \in {0, 1, 2, 128}) ->
             [ok EXCEPT !.id = W16(x, b), !.k = n - 2, !.codes = SubSeq(x, b + 2, e)]
        [] ty = 8 /\ fl = 2 /\ n >= 5 /\ W16(x, b) > 0 /\ ListOK(x, b + 2, e, 1, 0) > 0 ->
             [ok EXCEPT !.id = W16(x, b), !.k = ListOK(x, b + 2, e, 1, 0)]
        [] ty = 10 /\ fl = 2 /\ n >= 4 /\ W16(x, b) > 0 /\ ListOK(x, b + 2, e, 0, 0) > 0 ->
             [ok EXCEPT !.id = W16(x, b), !.k = ListOK(x, b + 2, e, 0, 0)]
        [] OTHER -> Bad      \* includes CONNECT: no CONNECT fits into the explored string lengths

-----------------------------------------------------------------------------
(* Enumeration drivers: Mode "cases" (one state per case), "parse" (one state per byte string) *)
CONSTANTS Mode, ParseAlpha, ParseMaxLen
Strs == UNION {[1..k -> ParseAlpha] : k \in 0..ParseMaxLen}

VARIABLE st
Init == CASE Mode = "cases" -> st \in Cases
          [] Mode = "pads" -> st \in {p \in Pads : VarLenOf(p.case) + p.pad <= 4}
          [] Mode = "mods" -> st \in {m \in Mods : ModOK(m)}
          [] Mode = "edits" -> st \in {e \in Edits : EditOK(e)}
          [] OTHER -> st \in Strs
Next == UNCHANGED st
Spec == Init /\ [][Next]_st

\* the reference codec is self-consistent: frame arithmetic, and Parse inverts Wire on
\* every case whose wire form is explicit (no bulk segment)
Explicit(w) == \A i \in 1..Len(w) : w[i].k = "b"
Bytes(w) == [i \in 1..Len(w) |-> w[i].v]
SelfConsistent ==
  Mode = "cases" =>
    LET w == Wire(st) IN
      /\ Size(w) >= 2
      /\ (Explicit(w) /\ st.ty # "CONNECT" /\ ~(st.ty \in DOMAIN AckFirst /\ st.id = 0)) => (LET p == Parse(Bytes(w)) IN p.ok /\ p.len = Len(w)
                            /\ (st.ty \in DOMAIN AckFirst => p.id = st.id)
                            /\ (st.ty = "CONNACK" => p.sp = st.sp /\ p.rc = st.code)
                            /\ (st.ty = "SUBACK" => p.id = st.id /\ p.k = st.k))
\* padding keeps the packet: the reference parser reads the padded form of an explicit case as the same packet
PadConsistent ==
  Mode = "pads" =>
    LET w == PadWire(st.case, st.pad) IN
      /\ Size(w) = Size(Wire(st.case)) + st.pad
      /\ (Explicit(w) /\ st.case.ty # "CONNECT") => (LET p == Parse(Bytes(w))  q == Parse(Bytes(Wire(st.case))) IN
                                                        p.ok /\ p.len = Len(w) /\ [p EXCEPT !.len = 0] = [q EXCEPT !.len = 0])
Emit == CASE Mode = "cases" -> PrintT(ToJson([case |-> st, wire |-> Wire(st), len |-> Size(Wire(st))]))
          [] Mode = "pads" -> PrintT(ToJson([case |-> st.case, pad |-> st.pad, wire |-> PadWire(st.case, st.pad),
                                             len |-> Size(Wire(st.case)) + st.pad]))
          [] Mode = "mods" -> PrintT(ToJson([case |-> st.to, from |-> st.from, auto |-> st.auto, wfrom |-> Wire(st.from),
                                             wire |-> Wire(st.to), len |-> Size(Wire(st.to))]))
          [] Mode = "edits" -> LET l == ApplyOps(EditBase(st.ty), st.ops) IN
                                 PrintT(ToJson([edit |-> st, base |-> EditBase(st.ty), wbase |-> EditWire(st.ty, EditBase(st.ty)), final |-> l,
                                                wire |-> EditWire(st.ty, l), len |-> Size(EditWire(st.ty, l))]))
          [] OTHER -> PrintT(ToJson([x |-> st, p |-> Parse(st)]))
=============================================================================
