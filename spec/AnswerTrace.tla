---------------------------- MODULE AnswerTrace ----------------------------
(* The answer discipline of a connection's processor under concurrent load (C02, C07, and the PINGRESP of C19):
   recorded runs of a real broker with several publishers at QoS 0 / 1 / 2, shared subscribers, a client that
   subscribes and unsubscribes in a loop and PINGREQs are validated against it.

   The processor of a connection handles one packet at a time; everything that is not a PUBLISH in the connection's
   outgoing stream is written by that processor while it handles a packet.  So between two consecutive `proc` events
   of connection s (hook after a packet has been handled and committed) the `enq` events of s that are not PUBLISH
   packets are exactly the answer to the packet handled:

       PUBLISH with an identifier (QoS 1 / 2)   one PUBACK or one PUBREC, same identifier     (C02)
       PUBLISH without (QoS 0)                  nothing
       PUBREL                                   one PUBCOMP, same identifier                  (C02)
       PUBREC                                   one PUBREL, same identifier                   (C12)
       SUBSCRIBE / UNSUBSCRIBE                  one SUBACK / UNSUBACK, same identifier        (C07)
       PINGREQ                                  one PINGRESP
       PUBACK, PUBCOMP, DISCONNECT              nothing

   An answer that could not be written because the connection was already going down is not logged (the enq hook sits
   behind the reservation of ring space); such a packet is counted in owed[s] and must not exist when the recorder
   declares the run quiet - all traffic sent, every connection still open (event `quiet`, before the recorder closes
   the connections).  A wrong, repeated or unrequested answer is rejected at once.                                  *)
EXTENDS Integers, Sequences, TLC, Json

Trace == ndJsonDeserialize("trace.ndjson")
CONSTANT Conns

VARIABLES acks,   \* s -> sequence of <<type, id>>: non-PUBLISH packets enqueued on s since its last proc event
          owed,   \* s -> number of handled packets whose answer was not enqueued
          l, stats
vars == <<acks, owed, l, stats>>

Init == /\ acks = [s \in Conns |-> <<>>] /\ owed = [s \in Conns |-> 0] /\ l = 1
        /\ stats = [runs |-> 0, answered |-> 0, silent |-> 0, owed |-> 0]
Ev == Trace[l]

PUBLISH == 3  PUBACK == 4  PUBREC == 5  PUBREL == 6  PUBCOMP == 7  SUBSCRIBE == 8  SUBACK == 9
UNSUBSCRIBE == 10  UNSUBACK == 11  PINGREQ == 12  PINGRESP == 13

\* the set of acceptable answers (each a sequence of <<type, id>>) to a handled packet
Expected(ty, id) ==
  CASE ty = PUBLISH /\ id # 0 -> {<< <<PUBACK, id>> >>, << <<PUBREC, id>> >>}
    [] ty = PUBREL           -> {<< <<PUBCOMP, id>> >>}
    [] ty = PUBREC           -> {<< <<PUBREL, id>> >>}
    [] ty = SUBSCRIBE        -> {<< <<SUBACK, id>> >>}
    [] ty = UNSUBSCRIBE      -> {<< <<UNSUBACK, id>> >>}
    [] ty = PINGREQ          -> {<< <<PINGRESP, 0>> >>}
    [] OTHER                 -> {<<>>}

Reset == /\ Ev.e = "reset"
         /\ acks' = [s \in Conns |-> <<>>] /\ owed' = [s \in Conns |-> 0]
         /\ stats' = [stats EXCEPT !.runs = @ + 1]
Enq ==   /\ Ev.e = "enq" /\ Ev.ty # PUBLISH
         /\ acks' = [acks EXCEPT ![Ev.s] = Append(@, <<Ev.ty, Ev.id>>)]
         /\ UNCHANGED <<owed, stats>>
Proc ==  /\ Ev.e = "proc"
         /\ LET exp == Expected(Ev.ty, Ev.id) IN
              \/ /\ acks[Ev.s] \in exp
                 /\ owed' = owed
                 /\ stats' = IF exp = {<<>>} THEN [stats EXCEPT !.silent = @ + 1] ELSE [stats EXCEPT !.answered = @ + 1]
              \/ /\ exp # {<<>>} /\ acks[Ev.s] = <<>>
                 /\ owed' = [owed EXCEPT ![Ev.s] = @ + 1]
                 /\ stats' = [stats EXCEPT !.owed = @ + 1]
         /\ acks' = [acks EXCEPT ![Ev.s] = <<>>]
\* all traffic has been sent and handled, every connection is still open: nothing is owed
Quiet == /\ Ev.e = "quiet"
         /\ \A s \in Conns : owed[s] = 0
         /\ UNCHANGED <<acks, owed, stats>>

Next == l <= Len(Trace) /\ l' = l + 1 /\ (Reset \/ Enq \/ Proc \/ Quiet)
Spec == Init /\ [][Next]_vars

Accepted == TLCGet("stats").diameter - 1 = Len(Trace)
Report == l <= Len(Trace) \/ PrintT(ToJson([report |-> stats, events |-> Len(Trace)]))
=============================================================================
