------------------------------ MODULE MCBroker ------------------------------
(* Configurations of the sequential Broker specification: one narrow alphabet per
   property family, so that on a conforming tree nothing but the property's own
   observables is exercised.                                                      *)
EXTENDS Broker

CONSTANTS c1, c2, c3, L1, k1, k2, k3

KOf(c) == IF c = c1 THEN k1 ELSE IF c = c2 THEN k2 ELSE k3

Free(N) == InitWith([c \in Conns |-> FreeConn], [k \in Cids |-> NoSess], {}, [t \in N |-> NoRet])

\* an initial state with a witness: slot w connected with client id kw (clean session) and
\* subscribed to the filters in F at QoS q; the replayer executes this preamble first
Witness(N, w, kw, F, q) ==
  /\ conn = [c \in Conns |-> IF c = w THEN [st |-> "up", cid |-> kw, clean |-> TRUE, will |-> NoWill] ELSE FreeConn]
  /\ sess = [k \in Cids |-> IF k = kw THEN [ex |-> TRUE, topics |-> {<<f, q>> : f \in F}, p2in |-> <<>>] ELSE NoSess]
  /\ subs = {[who |-> w, f |-> f, q |-> q] : f \in F}
  /\ ret = [t \in N |-> NoRet]
  /\ out = O0 /\ closed = [c \in Conns |-> FALSE]
  /\ last = [a |-> "init"] /\ prev = <<>> /\ steps = 0 /\ d2 = [c \in Conns |-> 0]
  /\ hist = << [a |-> [a |-> "connect", c |-> w, k |-> kw, clean |-> TRUE, will |-> [NoWill EXCEPT !.t = "-"]],
                out |-> Grp(O0, w, {Connack(FALSE, 0)}), closed |-> [c \in Conns |-> FALSE], nsess |-> 1],
               [a |-> [a |-> "subscribe", c |-> w, id |-> 1, req |-> [i \in 1..1 |-> [f |-> "#", q |-> q]]],
                out |-> Grp(O0, w, {Suback(1, <<q>>)}), closed |-> [c \in Conns |-> FALSE], nsess |-> 1] >>

\* an initial state with c1 and c2 already connected (clean sessions, client ids k1, k2); preamble replayed first
BothUp(N) ==
  /\ conn = [c \in Conns |-> [st |-> "up", cid |-> KOf(c), clean |-> TRUE, will |-> NoWill]]
  /\ sess = [k \in Cids |-> NewSess]
  /\ subs = {} /\ ret = [t \in N |-> NoRet]
  /\ out = O0 /\ closed = [c \in Conns |-> FALSE]
  /\ last = [a |-> "init"] /\ prev = <<>> /\ steps = 0 /\ d2 = [c \in Conns |-> 0]
  /\ hist = << [a |-> [a |-> "connect", c |-> c1, k |-> k1, clean |-> TRUE, will |-> [NoWill EXCEPT !.t = "-"]],
                out |-> Grp(O0, c1, {Connack(FALSE, 0)}), closed |-> [c \in Conns |-> FALSE], nsess |-> 1],
               [a |-> [a |-> "connect", c |-> c2, k |-> k2, clean |-> TRUE, will |-> [NoWill EXCEPT !.t = "-"]],
                out |-> Grp(O0, c2, {Connack(FALSE, 0)}), closed |-> [c \in Conns |-> FALSE], nsess |-> 2] >>

-----------------------------------------------------------------------------
(* C01 routing: two network clients + one in-process subscriber, clean sessions *)
RFilters == {<<"a","b">>, <<"a","+">>, <<"a","#">>, <<"#">>, <<"+","b">>}
RNames == {<<"a","b">>, <<"a">>, <<"a","b","c">>, <<"c">>}
RoutingInit == BothUp(RNames)
RoutingNext == steps < MaxSteps /\
  \/ \E c \in {c1, c2} : Connect(c, KOf(c), TRUE, NoWill)
  \/ \E c \in {c1, c2}, f \in RFilters, q \in 0..2 : Subscribe(c, 1, << <<f, q>> >>)
  \/ \E c \in {c1, c2}, f \in RFilters : Unsubscribe(c, 2, <<f>>)
  \/ \E t \in RNames, q \in 0..1, pl \in {"x", "", "B"} : Publish(c1, t, q, FALSE, pl, 5, FALSE)
  \/ \E t \in RNames : Publish2(c1, t, FALSE, "y", 7, FALSE)
  \/ Pubrel(c1, 7)
  \/ \E c \in {c1, c2}, how \in {"disconnect", "cut"} : End(c, how)
  \/ \E f \in RFilters, q \in {0, 2} : ApiSubscribe(L1, f, q)
  \/ \E f \in RFilters : ApiUnsubscribe(L1, f)
  \/ \E t \in RNames, q \in {0, 2} : ApiPublish(t, q, FALSE, "x")
RoutingSpec == RoutingInit /\ [][RoutingNext]_vars

(* C01, several subscribers on ONE filter with different granted QoS, joining, re-subscribing and leaving in every
   order (an implementation may keep subscribers and their QoS in parallel lists): narrow alphabet, deep          *)
SameNext == steps < MaxSteps /\
  \/ \E c \in {c1, c2}, q \in 0..2 : Subscribe(c, 1, << <<<<"a">>, q>> >>)
  \/ \E c \in {c1, c2} : Unsubscribe(c, 2, << <<"a">> >>)
  \/ \E q \in 0..2 : ApiSubscribe(L1, <<"a">>, q)
  \/ ApiUnsubscribe(L1, <<"a">>)
  \/ End(c2, "cut")
  \/ ApiPublish(<<"a">>, 2, FALSE, "x")
SameSpec == BothUp({<<"a">>}) /\ [][SameNext]_vars
\* all paths: every sequence of joins, re-subscriptions and leaves of the given length, observed by one probe publish
\* at the end (what the store has become does not depend on earlier probes)
SameMut == \/ \E c \in {c1, c2} : Churn(c)
           \/ \E c \in {c1, c2}, q \in 0..2 : Subscribe(c, 1, << <<<<"a">>, q>> >>)
           \/ \E c \in {c1, c2} : Unsubscribe(c, 2, << <<"a">> >>)
           \/ \E q \in {0, 2} : ApiSubscribe(L1, <<"a">>, q)
           \/ ApiUnsubscribe(L1, <<"a">>)
           \/ End(c2, "cut")
SameLastNext == steps < MaxSteps /\ IF steps < MaxSteps - 1 THEN SameMut ELSE ApiPublish(<<"a">>, 2, FALSE, "x")
SameLastSpec == BothUp({<<"a">>}) /\ [][SameLastNext]_vars

(* C01, the largest messages a client can publish through a 16 KiB ring (payload "M": the packet is a few bytes short of
   ring minus one read block), at every QoS, back to back with small ones: all paths *)
BigNext == steps < MaxSteps /\
  \/ \E q \in 0..1, pl \in {"M", "x"} : Publish(c1, <<"a">>, q, FALSE, pl, 5, FALSE)
  \/ Publish2(c1, <<"a">>, FALSE, "M", 7, FALSE) \/ Pubrel(c1, 7)
  \/ \E q \in {0, 2} : Subscribe(c2, 1, << <<<<"a">>, q>> >>)
  \/ ApiSubscribe(L1, <<"a">>, 1)
BigSpec == BothUp({<<"a">>}) /\ [][BigNext]_vars

(* C01, subscriptions of different clients on filters that share leading levels (an implementation that keeps them in a
   tree creates and prunes nodes on the shared path): every history of subscribing, unsubscribing and a client's
   connection being cut, observed by one probe publish at the end                                                   *)
PathFilters == {<<"a","b">>, <<"a","+">>, <<"a","b","c">>}
PathMut == \/ \E c \in {c1, c2}, f \in PathFilters : Subscribe(c, 1, << <<f, 1>> >>)
           \/ \E c \in {c1, c2}, f \in PathFilters : Unsubscribe(c, 2, <<f>>)
           \/ End(c2, "cut")
PathLastNext == steps < MaxSteps /\
  IF steps < MaxSteps - 1 THEN PathMut ELSE \E t \in {<<"a","b">>, <<"a","b","c">>} : ApiPublish(t, 1, FALSE, "x")
PathLastSpec == BothUp({<<"a","b">>, <<"a","b","c">>}) /\ [][PathLastNext]_vars

(* C02 receiver side of QoS 1/2: publisher c1, witness c2 subscribed to '#' at QoS 2;
   big QoS 0 filler traffic wraps the 16 KiB ring between PUBLISH and PUBREL          *)
QNames == {<<"a">>, <<"z">>}
QosInit == Witness(QNames, c2, k2, {<<"#">>}, 2) 
QosConn == conn[c1].st = "free" /\ Connect(c1, k1, TRUE, NoWill)
QosNext == steps < MaxSteps /\
  \/ QosConn
  \/ \E id \in {1, 2} : Publish2(c1, <<"a">>, FALSE, "x", id, FALSE) \/ Publish2(c1, <<"a">>, FALSE, "y", id, TRUE)
  \/ \E id \in {1, 2, 3} : Pubrel(c1, id)
  \/ Publish(c1, <<"a">>, 1, FALSE, "w", 1, FALSE)
  \/ Publish(c1, <<"z">>, 0, FALSE, "B", 0, FALSE)
QosSpec == QosInit /\ [][QosNext]_vars

(* C02, "arbitrary other traffic between PUBLISH and PUBREL" includes acknowledgement packets of every kind that carry
   the identifier of an open exchange (a client numbers its own requests and the broker's deliveries to it from the
   same range): all paths over two exchanges, released in any order, with stray acknowledgements in between    *)
QosStrayNext == steps < MaxSteps /\
  \/ QosConn
  \/ \E id \in {1, 2} : Publish2(c1, <<"a">>, FALSE, IF id = 1 THEN "x" ELSE "y", id, FALSE)
  \/ \E id \in {1, 2} : Pubrel(c1, id)
  \/ (conn[c1].st = "up" /\ sess[k1].p2in # <<>> /\ \E ty \in {"PUBREC", "PUBCOMP", "PUBACK", "SUBACK", "UNSUBACK"} : Stray(c1, ty, 2))
QosStraySpec == QosInit /\ [][QosStrayNext]_vars

(* C02, an exchange that spans connections: the incoming QoS 2 queue is part of the session (sess[k].p2in), so with
   CleanSession 0 a PUBLISH acknowledged with PUBREC on one connection is handed on when its PUBREL arrives on the next
   connection of that client identifier - once, and not at all after a CleanSession 1 connect in between.  All paths. *)
QosResumeNext == steps < MaxSteps /\
  \/ \E cl \in BOOLEAN : Connect(c1, k1, cl, NoWill)
  \/ \E id \in {1, 2} : Publish2(c1, <<"a">>, FALSE, IF id = 1 THEN "x" ELSE "y", id, FALSE)
  \/ \E id \in {1, 2} : Pubrel(c1, id)
  \/ \E how \in {"disconnect", "cut"} : End(c1, how)
QosResumeSpec == QosInit /\ [][QosResumeNext]_vars

(* C02 / C08, a QoS 2 PUBLISH with the RETAIN flag: it becomes the retained message of its topic when it is handed on, at
   PUBREL time, not when the PUBLISH arrives - a subscription made between PUBLISH and PUBREL gets what was retained
   before, and the message itself once, live, at the PUBREL.  All paths over two exchanges, a network re-subscription of
   the witness and an in-process subscription in between                                                           *)
RetQ2Next == steps < MaxSteps /\
  \/ QosConn
  \/ \E id \in {1, 2} : Publish2(c1, <<"a">>, TRUE, IF id = 1 THEN "x" ELSE "y", id, FALSE)
  \/ \E id \in {1, 2} : Pubrel(c1, id)
  \/ Subscribe(c2, 3, << <<<<"a">>, 2>> >>)
  \/ ApiSubscribe(L1, <<"a">>, 1)
RetQ2Spec == QosInit /\ [][RetQ2Next]_vars

(* C02, many QoS 2 exchanges open at once (the incoming queue grows beyond its 16 entries, also after its head has
   moved): long random behaviours generated with TLC -simulate                                               *)
Q2Open == {sess[k1].p2in[i].id : i \in 1..Len(sess[k1].p2in)}
Q2ManyNext == steps < MaxSteps /\
  \/ QosConn
  \* identifiers are taken round-robin (the next free one after the last step's number), as a client with a counter does:
  \* an identifier comes back only after many others, long after the queue's ring has gone round
  \/ \E n \in 1..3 : \E id \in {i \in 1..40 : i \notin Q2Open /\ i = ((steps * 7) % 40) + 1} :
        Publish2(c1, <<"a">>, FALSE, "m" \o ToString(id), id, FALSE)      \* one payload per identifier
  \* a PUBREL repeated for an exchange that is complete (its PUBCOMP was lost): answered again, nothing else happens
  \/ \E id \in {i \in 1..40 : i \notin Q2Open /\ i = ((steps * 11) % 40) + 1} : Pubrel(c1, id)
  \/ (sess[k1].p2in # <<>> /\ Pubrel(c1, Head(sess[k1].p2in).id))
  \/ (Len(sess[k1].p2in) > 1 /\ Pubrel(c1, sess[k1].p2in[Len(sess[k1].p2in)].id))
Q2ManyFinish == steps = MaxSteps /\ steps' = steps + 1 /\ UNCHANGED <<conn, sess, subs, ret, out, closed, last, prev, hist, d2>>
Q2ManySpec == QosInit /\ [][Q2ManyNext \/ Q2ManyFinish]_vars
EmitMany == steps <= MaxSteps \/ PrintT(ToJson(hist))

(* C12 / C05, broker as sender with many deliveries outstanding: the witness acknowledges slowly (the oldest unanswered
   QoS 1 delivery, one PUBACK for about three deliveries), so the queue of requests the broker keeps for it - filled by the
   PUBLISHER's processor during the fan-out - grows beyond its 16 entries after its head has moved.  What a slow subscriber
   does must not hurt the publisher.  Long random behaviours generated with TLC -simulate.                         *)
FwdManyNext == steps < MaxSteps /\
  \/ QosConn
  \/ \E n \in 1..3 : Publish(c1, <<"a">>, 1, FALSE, "m" \o ToString((steps % 40) + 1), (steps % 40) + 1, FALSE)
  \/ SubAckOther(c2, "PUBACK")
FwdManySpec == QosInit /\ [][FwdManyNext \/ Q2ManyFinish]_vars

(* C12, broker as sender: QoS 1 / QoS 2 deliveries to the witness, which answers with PUBACK / PUBREC / PUBCOMP *)
FwdNext == steps < MaxSteps /\
  \/ QosConn
  \/ \E id \in {1, 2} : Publish2(c1, <<"a">>, FALSE, "x", id, FALSE)
  \/ \E id \in {1, 2} : Pubrel(c1, id)
  \/ Publish(c1, <<"a">>, 1, FALSE, "w", 3, FALSE)
  \/ SubRec(c2) \/ SubAckOther(c2, "PUBCOMP") \/ SubAckOther(c2, "PUBACK")
FwdSpec == QosInit /\ [][FwdNext]_vars

(* C07 SUBSCRIBE / UNSUBSCRIBE requests with 1..9 filters, valid and invalid, QoS 0..3 *)
SNames == {<<"a">>, <<"a","b">>, <<"b">>}
FV1 == <<"a">>  FV2 == <<"a","b">>  FV3 == <<"+">>  FV4 == <<"a","#">>  FV5 == <<"b">>
FI1 == <<"a","#","b">>  FI2 == <<"a+">>  FI3 == <<"#","a">>  FI4 == <<"a","b","c#">>
FL == <<"LONG">>        \* the replayer sends a level of 130 characters: the request's remaining length takes two bytes
SubReqs == { << <<FV1, 1>> >>, << <<FV1, 0>>, <<FV2, 2>> >>, << <<FV3, 2>>, <<FV1, 1>>, <<FV3, 0>> >>,
             << <<FI1, 1>> >>, << <<FV1, 1>>, <<FI2, 0>>, <<FV2, 2>> >>, << <<FV2, 3>> >>, << <<FV1, 3>>, <<FV4, 1>> >>,
             << <<FV1, 0>>, <<FV2, 1>>, <<FV3, 2>>, <<FV4, 0>>, <<FV5, 1>> >>,
             << <<FV1, 2>>, <<FV2, 2>>, <<FV3, 2>>, <<FV4, 2>>, <<FV5, 2>>, <<FI3, 1>>, <<FV1, 0>>, <<FV2, 0>>, <<FV3, 1>> >>,
             << <<FL, 1>>, <<FV1, 2>> >>, << <<FV2, 1>>, <<FL, 0>>, <<FV3, 1>> >> }
UnsubReqs == { <<FV1>>, <<FV1, FV2>>, <<FV3, FV3>>, <<FV1, FV2, FV3, FV4, FV5>>, <<FV5, FV4, FV3, FV2, FV1, FI1, FV1, FV2, FV3>>, <<FI2>>,
               <<FL, FV1>>, <<FL, FV2, FV3>>, <<FV1, FL>> }
SubsInit == BothUp(SNames)
SubsNext == steps < MaxSteps /\
  \/ \E c \in {c1, c2} : Connect(c, KOf(c), TRUE, NoWill)
  \/ \E r \in SubReqs, id \in {1, 258} : Subscribe(c1, id, r)
  \/ \E r \in UnsubReqs : Unsubscribe(c1, 3, r)
  \/ \E t \in SNames : Publish(c2, t, 1, FALSE, "x", 9, FALSE)
SubsSpec == SubsInit /\ [][SubsNext]_vars
\* requests with 130 entries (the SUBACK's remaining length needs two bytes; so does the requests' own), next to small ones
BigSub == [i \in 1..130 |-> <<IF i % 2 = 0 THEN FV1 ELSE FV5, i % 3>>]
BigUnsub == [i \in 1..130 |-> IF i % 2 = 0 THEN FV1 ELSE FV5]
SubsBigNext == steps < MaxSteps /\
  \/ Subscribe(c1, 258, BigSub) \/ Unsubscribe(c1, 3, BigUnsub)
  \/ Subscribe(c1, 1, << <<FV1, 1>> >>) \/ Unsubscribe(c1, 3, <<FV5>>)
  \/ \E t \in {<<"a">>, <<"b">>} : Publish(c2, t, 1, FALSE, "x", 9, FALSE)
SubsBigSpec == SubsInit /\ [][SubsBigNext]_vars
\* all paths of subscribe / unsubscribe requests and ring churn on one connection, then one probe publish from another:
\* what a request established stays as it is, whatever the connection sends afterwards
SubsLastMut == \/ Churn(c1)
               \/ \E q \in {0, 1} : Subscribe(c1, 1, << <<FV1, q>> >>)
               \/ Subscribe(c1, 1, << <<FV2, 1>>, <<FV1, 0>> >>)
               \/ Unsubscribe(c1, 3, <<FV1>>) \/ Unsubscribe(c1, 3, <<FV2, FV1>>)
               \* requests with a filter that is rejected below a level it shares with accepted ones: what was accepted
               \* before (also earlier in the same request) stays as it is
               \/ Subscribe(c1, 1, << <<FI1, 1>> >>) \/ Subscribe(c1, 1, << <<FV2, 1>>, <<FI4, 0>> >>)
SubsLastNext == steps < MaxSteps /\
  IF steps < MaxSteps - 1 THEN SubsLastMut ELSE \E t \in {<<"a">>, <<"a","b">>} : Publish(c2, t, 1, FALSE, "x", 9, FALSE)
SubsLastSpec == SubsInit /\ [][SubsLastNext]_vars

(* C08 retained messages: parent / child / sibling topics, replacement by shorter and longer
   payloads, clearing, QoS downgrade, unrelated big traffic                                *)
TNames == {<<"a">>, <<"a","b">>, <<"c">>}
TFilters == {<<"a">>, <<"a","+">>, <<"#">>, <<"a","b">>}
RetainInit == BothUp(TNames)
RetainNext == steps < MaxSteps /\
  \/ \E c \in {c1, c2} : Connect(c, KOf(c), TRUE, NoWill)
  \/ \E t \in TNames, q \in 0..1, pl \in {"x", "B", ""} : Publish(c1, t, q, TRUE, pl, 4, FALSE)
  \/ \E t \in {<<"a">>} : Publish(c1, t, 0, FALSE, "y", 0, FALSE)
  \/ Publish2(c1, <<"a","b">>, TRUE, "z", 6, FALSE) \/ Pubrel(c1, 6)
  \/ \E f \in TFilters, q \in 0..2 : Subscribe(c2, 1, << <<f, q>> >>)
  \/ Subscribe(c2, 2, << <<<<"a">>, 1>>, <<<<"#">>, 0>> >>)
  \/ \E f \in TFilters : Unsubscribe(c2, 3, <<f>>)
  \/ \E f \in {<<"#">>, <<"a">>} : ApiSubscribe(L1, f, 1)
  \/ ApiPublish(<<"c">>, 1, TRUE, "w")
RetainSpec == RetainInit /\ [][RetainNext]_vars

\* all paths over one retained topic: the implementation keeps state the specification does not have
\* (the stored message object, its QoS, its buffer), so one witness per transition is not enough
Retain1Next == steps < MaxSteps /\
  \/ \E q \in 0..1, pl \in {"x", "B", ""} : Publish(c1, <<"a">>, q, TRUE, pl, 4, FALSE)
  \/ Publish2(c1, <<"a">>, TRUE, "z", 6, FALSE) \/ Pubrel(c1, 6)
  \/ \E f \in {<<"a">>, <<"#">>}, q \in 0..2 : Subscribe(c2, 1, << <<f, q>> >>)
  \/ Unsubscribe(c2, 3, << <<"a">>, <<"#">> >>)
  \/ ApiSubscribe(L1, <<"a">>, 2) \/ ApiUnsubscribe(L1, <<"a">>)
  \/ ApiSubscribeErr(L1, <<"a">>, 0)       \* an in-process subscriber at a lower QoS whose callback fails on the retained message
Retain1Spec == BothUp({<<"a">>}) /\ [][Retain1Next]_vars

\* all paths over a chain of topics: every history of storing and clearing retained messages on a topic, its
\* descendants and an unrelated topic (an implementation that keeps them in a tree prunes and re-creates nodes),
\* observed by one probe subscription at the end
RTNames == {<<"a">>, <<"a","b">>, <<"a","b","c">>, <<"d">>}
RetTreeMut == Churn(c1) \/ \E t \in RTNames, pl \in {"x", ""} : Publish(c1, t, 0, TRUE, pl, 0, FALSE)
RetTreeLastNext == steps < MaxSteps /\
  IF steps < MaxSteps - 1 THEN RetTreeMut
  ELSE \E f \in {<<"#">>, <<"a">>, <<"a","#">>, <<"a","+">>, <<"a","b","c">>} : Subscribe(c2, 1, << <<f, 1>> >>)
RetTreeLastSpec == BothUp(RTNames) /\ [][RetTreeLastNext]_vars

\* retained messages stored from QoS 1 publishes of a client that repeats its deliveries (DUP flag) and numbers them alike:
\* what is stored is the application message; flags and identifier of the delivery it came in are not part of it.  All
\* paths, then one probe subscription at QoS 1 (single filter, wildcard, or all topics in one request)
RDNames == {<<"a">>, <<"a","b">>, <<"d">>}
RetDupLastNext == steps < MaxSteps /\
  IF steps < MaxSteps - 1 THEN \E t \in RDNames, dup \in BOOLEAN : Publish(c1, t, 1, TRUE, "y", 4, dup)
  ELSE \/ \E f \in {<<"#">>, <<"a","#">>} : Subscribe(c2, 1, << <<f, 1>> >>)
       \/ Subscribe(c2, 1, << <<<<"a">>, 1>>, <<<<"a","b">>, 1>>, <<<<"d">>, 1>> >>)
RetDupLastSpec == BothUp(RDNames) /\ [][RetDupLastNext]_vars

(* C05, a subscriber whose incoming direction is dead (BreakOut) among live ones: retained and plain publishes of another
   client, an in-process subscriber, a later subscription of the publisher itself (it must get the retained message),
   the broken connection's end.  All paths; c2 does nothing after its BreakOut but end.                              *)
HalfNames == {<<"a">>}
HalfNext == steps < MaxSteps /\
  \/ (last.a # "breakout" /\ (\A i \in 1..Len(hist) : hist[i].a.a # "breakout") /\ Subscribe(c2, 1, << <<<<"a">>, 1>> >>))
  \/ ((\E s \in subs : s.who = c2) /\ (\A i \in 1..Len(hist) : hist[i].a.a # "breakout") /\ BreakOut(c2))
  \/ \E q \in 0..1, pl \in {"x", ""} : Publish(c1, <<"a">>, q, TRUE, pl, 4, FALSE)
  \/ Publish(c1, <<"a">>, 1, FALSE, "y", 5, FALSE)
  \/ Subscribe(c1, 2, << <<<<"a">>, 1>> >>) \/ Unsubscribe(c1, 3, << <<"a">> >>)
  \/ ApiSubscribe(L1, <<"a">>, 1)
  \/ End(c2, "cut")
HalfSpec == BothUp(HalfNames) /\ [][HalfNext]_vars

(* C09 wills: connect / end sequences on client id k1 (fresh and resumed sessions, changing
   will), witness c2 subscribed to '#'                                                     *)
WNames == {<<"w">>, <<"v">>}
W1 == [on |-> TRUE, t |-> <<"w">>, pl |-> "w1", q |-> 0, r |-> FALSE]
W2 == [on |-> TRUE, t |-> <<"v">>, pl |-> "w2", q |-> 1, r |-> TRUE]
W3 == [on |-> TRUE, t |-> <<"w">>, pl |-> "", q |-> 2, r |-> FALSE]
W4 == [on |-> TRUE, t |-> <<"w">>, pl |-> "", q |-> 0, r |-> TRUE]      \* retained will with an empty payload: clears, and is still published
W5 == [on |-> TRUE, t |-> <<"w">>, pl |-> "MID", q |-> 1, r |-> FALSE]   \* 12,000 bytes: more than a ring minus a read block, less than a ring
W6 == [on |-> TRUE, t |-> <<"w">>, pl |-> "T125", q |-> 0, r |-> TRUE]   \* 125 bytes: the will's PUBLISH - always encoded from its fields - has a remaining length of exactly 128
Wills == {NoWill, W1, W2, W3, W4, W5}     \* (W6 is used in WillEofSpec)
WillInit == Witness(WNames, c2, k2, {<<"#">>}, 2)
WillNext == steps < MaxSteps /\
  \/ \E cl \in BOOLEAN, w \in Wills : Connect(c1, k1, cl, w)
  \/ \E how \in {"disconnect", "cut", "bad"} : End(c1, how)
  \/ Subscribe(c1, 1, << <<<<"v">>, 1>> >>)
WillSpec == WillInit /\ [][WillNext]_vars
\* the same with a DISCONNECT whose bytes reach the broker together with the end of the stream
WillEofNext == steps < MaxSteps /\
  \/ \E cl \in BOOLEAN, w \in {NoWill, W1, W2, W6} : Connect(c1, k1, cl, w)
  \/ \E how \in {"disconnect-eof", "pings-disconnect-eof", "cut"} : End(c1, how)
  \/ Subscribe(c1, 1, << <<<<"v">>, 1>> >>)
WillEofSpec == WillInit /\ [][WillEofNext]_vars

(* C10 sessions: clean / persistent connects on two client ids over three slots          *)
ENames == {<<"a">>, <<"b">>}
SessInit == Free(ENames)
SessNext == steps < MaxSteps /\
  \/ \E c \in {c1, c2}, k \in {k1, k2}, cl \in BOOLEAN : Connect(c, k, cl, NoWill)
  \/ \E c \in {c1, c2}, f \in {<<"a">>, <<"+">>}, q \in {0, 1} : Subscribe(c, 1, << <<f, q>> >>)
  \/ \E c \in {c1, c2} : Unsubscribe(c, 2, << <<"a">> >>)
  \/ \E c \in {c1, c2}, how \in {"disconnect", "cut"} : End(c, how)
  \/ \E t \in ENames : ApiPublish(t, 1, FALSE, "x")
SessSpec == SessInit /\ [][SessNext]_vars

\* all paths on one slot and one client id: the implementation keeps session state the specification
\* does not distinguish (e.g. a filter subscribed twice), so one witness per transition is not enough
SW == [on |-> TRUE, t |-> <<"b">>, pl |-> "w1", q |-> 0, r |-> FALSE]     \* whether a connection has a will changes nothing about its session
Sess1Next == steps < MaxSteps /\
  \/ Churn(c1)
  \/ \E cl \in BOOLEAN, w \in {NoWill, SW} : Connect(c1, k1, cl, w)
  \/ \E q \in {0, 1} : Subscribe(c1, 1, << <<<<"a">>, q>> >>)
  \/ Unsubscribe(c1, 2, << <<"a">> >>)
  \/ \E how \in {"disconnect", "cut"} : End(c1, how)
  \/ ApiPublish(<<"a">>, 1, FALSE, "x")
Sess1Spec == SessInit /\ [][Sess1Next]_vars
\* longer histories of one client id (several connections of a persistent session, subscribing in one and unsubscribing
\* in another), observed by one probe publish at the end
Sess1Mut == \/ \E cl \in BOOLEAN : Connect(c1, k1, cl, NoWill)
            \/ Subscribe(c1, 1, << <<<<"a">>, 1>> >>)
            \* a request whose first filter is rejected: what the session keeps is what was granted, filter by filter
            \* (its last filter is a wildcard filter: a session stores filters, not topic names)
            \/ Subscribe(c1, 1, << <<<<"a","#","x">>, 0>>, <<<<"a">>, 0>>, <<<<"+">>, 1>> >>)
            \/ Unsubscribe(c1, 2, << <<"a">> >>)
            \/ \E how \in {"disconnect", "cut"} : End(c1, how)
            \* somebody starts to resume the session on another connection and gives up before the CONNACK can be
            \* written (no connection comes into being): the stored session stays as it is
            \/ ((\A d \in Conns : Up(d) => conn[d].cid # k1) /\ sess[k1].ex /\ Refuse(c2, "abort-k1-keep", ""))
Sess1LastNext == steps < MaxSteps /\ IF steps < MaxSteps - 1 THEN Sess1Mut ELSE \E t \in ENames : ApiPublish(t, 1, FALSE, "x")
Sess1LastSpec == SessInit /\ [][Sess1LastNext]_vars

(* C10, a persistent session whose connection is half dead: the broker cannot write to it any more (its SUBACKs are lost),
   but reads what the client still sends.  A SUBSCRIBE for a filter the session already holds changes nothing about that
   filter - however the SUBACK fares - and whatever the session held when the connection ends is active again on the next
   connection.  All paths of state-changing steps, then one probe publish.  BreakOut at most once per behaviour.      *)
NoBreak == \A i \in 1..Len(hist) : hist[i].a.a # "breakout"
SessHalfMut == \/ Connect(c1, k1, FALSE, NoWill)
               \/ \E q \in {1} : Subscribe(c1, 1, << <<<<"a">>, q>> >>)
               \/ (NoBreak /\ (\E s \in subs : s.who = c1) /\ BreakOut(c1))
               \/ ApiPublish(<<"a">>, 1, FALSE, "y")
               \/ End(c1, "cut")
SessHalfNext == steps < MaxSteps /\ IF steps < MaxSteps - 1 THEN SessHalfMut ELSE ApiPublish(<<"a">>, 1, FALSE, "x")
SessHalfSpec == SessInit /\ [][SessHalfNext]_vars

(* C07, effect at the acknowledgement: SUBSCRIBE, wide UNSUBSCRIBE (UNSUBACK awaited, no barrier), publish from elsewhere *)
UnsubRaceNext == steps < MaxSteps /\
  \/ Subscribe(c2, 1, << <<<<"a">>, 1>> >>)
  \/ ((\E s \in subs : s.who = c2) /\ UnsubscribeWide(c2, 2, <<"a">>))
  \/ ApiPublish(<<"a">>, 0, FALSE, "x")
  \/ Publish(c1, <<"a">>, 0, FALSE, "y", 0, FALSE)
UnsubRaceSpec == BothUp({<<"a">>}) /\ [][UnsubRaceNext]_vars

(* C11 first packets: every way of being refused, followed by packets on the refused connection;
   witness c2 subscribed to '#', afterwards a probe of the retained store                  *)
ANames == {<<"a">>}
RefuseKinds == {"level", "name", "idlong", "idbad", "iddel", "idhigh", "idctl1f", "idempty0", "reserved", "willflags", "notconnect-ping",
                "notconnect-sub", "notconnect-pub", "truncated", "truncated2", "garbage", "badflags",
                "v3-truncated10", "v3-truncated11", "remlen5",
                \* a connection stuck in the middle of its CONNECT (no effect, and no effect on others: the replayer lets another
                \* client connect and disconnect meanwhile - CONNACK 0 - before the stalled connection goes away)
                "stall-halfconnect"}
AdmitInit == Witness(ANames, c2, k2, {<<"#">>}, 1)
AdmitNext == steps < MaxSteps /\
  \/ \E kind \in RefuseKinds, follow \in {"", "a"} : Refuse(c1, kind, follow)
  \/ Connect(c1, k1, TRUE, NoWill) \/ Connect(c1, k1, FALSE, NoWill)
  \/ End(c1, "disconnect")
  \/ Subscribe(c2, 4, << <<<<"a">>, 0>> >>)
  \/ ApiPublish(<<"a">>, 0, FALSE, "x")
AdmitSpec == AdmitInit /\ [][AdmitNext]_vars
\* every wire form of an acceptable CONNECT, on a fresh identifier, on one with a stored session (resumed and replaced),
\* and with a zero-length identifier (key k3 stands for the identifier the broker assigns)
FormNext == steps < MaxSteps /\
  \/ \E form \in ConnectForms, cl \in BOOLEAN : ConnectF(c1, k1, cl, NoWill, form)
  \/ \E form \in AnonForms : ConnectF(c1, k3, TRUE, NoWill, form)
  \/ Subscribe(c1, 1, << <<<<"a">>, 1>> >>)
  \/ End(c1, "disconnect") \/ End(c1, "cut")
  \/ ApiPublish(<<"a">>, 1, FALSE, "x")
FormSpec == Free(ANames) /\ [][FormNext]_vars
\* an authenticator that accepts user "good" only: refused logins that name the client id of a stored
\* persistent session (with CleanSession 1 and 0) must leave that session alone
SelNext == steps < MaxSteps /\
  \/ Connect(c1, k1, FALSE, NoWill) \/ Connect(c1, k1, TRUE, NoWill)
  \/ Subscribe(c1, 1, << <<<<"a">>, 1>> >>)
  \/ End(c1, "disconnect") \/ End(c1, "cut")
  \/ \E kind \in {"auth-k1-clean", "auth-k1-keep", "auth"} : Refuse(c2, kind, "")
  \/ ApiPublish(<<"a">>, 1, FALSE, "x")
SelSpec == Free(ANames) /\ [][SelNext]_vars
\* an authenticator that checks the password of user "good": what was accepted once says nothing about the next login
\* with that name (or that client identifier) - all paths of accepted logins, ends and refused logins, then a probe
PwNext == steps < MaxSteps /\
  \/ \E cl \in BOOLEAN : ConnectF(c1, k1, cl, NoWill, "userpass")
  \/ Subscribe(c1, 1, << <<<<"a">>, 1>> >>)
  \/ End(c1, "disconnect") \/ End(c1, "cut")
  \/ \E kind \in {"auth-badpw", "auth-nopw", "auth-k1-badpw"} : \E follow \in {"", "a"} : ((\A d \in Conns : Up(d) => conn[d].cid # k1) /\ Refuse(c2, kind, follow))
  \/ ApiPublish(<<"a">>, 1, FALSE, "x")
PwSpec == Free(ANames) /\ [][PwNext]_vars
\* the same with an authenticator that rejects every login
AuthNext == steps < MaxSteps /\
  \/ Refuse(c1, "auth", "") \/ Refuse(c1, "auth", "a") \/ Refuse(c1, "level", "")
  \/ ApiPublish(<<"a">>, 0, FALSE, "x")
AuthSpec == Free(ANames) /\ [][AuthNext]_vars
=============================================================================
