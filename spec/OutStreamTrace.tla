--------------------------- MODULE OutStreamTrace ---------------------------
(* Direction B for C17 (and the concurrent part of C08): recorded executions of a real
   broker under concurrent load are validated against the queue view of a connection's
   outgoing stream.

   Events (one log, appended in real order under one mutex):
     enq   s ty len      hook inside writeMessage, under the connection's write mutex,
                         immediately BEFORE the ring commit: a whole packet of that type
                         and length is appended to the outgoing stream of connection s
     recv  s ty len p n  the raw client of s parsed the next whole packet off its socket
                         (strict reference parser); for a PUBLISH: publisher p, sequence
                         number n (embedded in the payload, first 0)
     bad   s             the bytes read by s did not parse as an MQTT packet
     put g / acc g / got s g g0 ok
                         retained generations (C08): generation g is about to be sent to the
                         broker as a retained PUBLISH; the broker has handled generation g
                         (proc hook); a PUBLISH of that topic received by subscriber s carries
                         generation g, g0 generations had been handled when its SUBSCRIBE was
                         sent, and ok says that the payload is one complete generation
     reset               a new recorded run starts

   outq[s] is the stream between writeMessage and the socket.  Whole packets: every recv
   is exactly the head of outq[s].  Publisher order: the messages of one publisher reach one
   subscriber with consecutive sequence numbers, nothing lost, duplicated or overtaken.   *)
EXTENDS Integers, Sequences, TLC, Json

Trace == ndJsonDeserialize("trace.ndjson")
CONSTANTS Conns, Pubs

VARIABLES outq, lastn, gen, acc, l, stats
vars == <<outq, lastn, gen, acc, l, stats>>

Init == /\ outq = [s \in Conns |-> <<>>] /\ lastn = [s \in Conns |-> [p \in Pubs |-> -1]]
        /\ gen = 0 /\ acc = 0 /\ l = 1 /\ stats = [runs |-> 0, packets |-> 0, maxq |-> 0, retained |-> 0]

Ev == Trace[l]

Reset == /\ Ev.e = "reset"
         /\ outq' = [s \in Conns |-> <<>>] /\ lastn' = [s \in Conns |-> [p \in Pubs |-> -1]] /\ gen' = 0 /\ acc' = 0
         /\ stats' = [stats EXCEPT !.runs = @ + 1]
Enq ==   /\ Ev.e = "enq"
         /\ outq' = [outq EXCEPT ![Ev.s] = Append(@, <<Ev.ty, Ev.len>>)]
         /\ stats' = [stats EXCEPT !.maxq = IF Len(outq'[Ev.s]) > @ THEN Len(outq'[Ev.s]) ELSE @]
         /\ UNCHANGED <<lastn, gen, acc>>
\* a whole packet, the next one of the stream; a PUBLISH of publisher p continues p's sequence
Recv ==  /\ Ev.e = "recv"
         /\ outq[Ev.s] # <<>> /\ Head(outq[Ev.s]) = <<Ev.ty, Ev.len>>
         /\ outq' = [outq EXCEPT ![Ev.s] = Tail(@)]
         /\ IF Ev.p >= 0
              THEN /\ Ev.n = lastn[Ev.s][Ev.p] + 1
                   /\ lastn' = [lastn EXCEPT ![Ev.s][Ev.p] = Ev.n]
              ELSE UNCHANGED lastn
         /\ stats' = [stats EXCEPT !.packets = @ + 1]
         /\ UNCHANGED <<gen, acc>>
\* retained generations: what a new subscription gets is one complete generation, not older than
\* what was current when the SUBSCRIBE started, not newer than what has been handed to the broker
Put ==   /\ Ev.e = "put" /\ Ev.g = gen + 1 /\ gen' = Ev.g /\ UNCHANGED <<outq, lastn, acc, stats>>
Acc ==   /\ Ev.e = "acc" /\ Ev.g = acc + 1 /\ Ev.g <= gen /\ acc' = Ev.g /\ UNCHANGED <<outq, lastn, gen, stats>>
Got ==   /\ Ev.e = "got" /\ Ev.ok = TRUE /\ Ev.g <= gen /\ Ev.g >= Ev.g0 /\ Ev.g0 <= acc
         /\ stats' = [stats EXCEPT !.retained = @ + 1] /\ UNCHANGED <<outq, lastn, gen, acc>>

Next == l <= Len(Trace) /\ l' = l + 1 /\ (Reset \/ Enq \/ Recv \/ Put \/ Acc \/ Got)
Spec == Init /\ [][Next]_vars

Accepted == TLCGet("stats").diameter - 1 = Len(Trace)
Report == l <= Len(Trace) \/ PrintT(ToJson([report |-> stats, events |-> Len(Trace)]))
=============================================================================
