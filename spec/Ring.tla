-------------------------------- MODULE Ring --------------------------------
(* service/buffer.go at lock / condition-variable / cursor granularity.

   One producer P, one consumer C, one closer X.  Every segment of code between two
   yield points of the implementation (verifYield sites, named like the pc labels
   here) is one action; in particular there is a state between loading the peer
   cursor and Lock, one between the isDone test and Wait, and one between the cursor
   store and the broadcast: the windows in which a wake-up can be lost.

   Unit of data: one model unit = UnitBytes bytes in the replayer; buf[i] holds the
   stream position stored in cell i, so misplaced, duplicated or stale data shows.

   Producer operations   W(n)   Write(n)
                         WW(n)  WriteWait(n); fill; WriteCommit(n)   (Write(n) if the
                                reservation wraps, as service.writeMessage does)
                         pump   ReadFrom(reader): iterations rf.top -> waitForWriteSpace(Block)
                                -> reader.Read -> WriteCommit(k); deferred Close at the end
   Consumer operations   R(n)   Read(p[n])
                         RP(n)  ReadPeek(n); use; ReadCommit(m)
                         RW(n)  ReadWait(n); use; ReadCommit(n)
                         pump   WriteTo(writer): iterations wt.top -> ReadPeek(Block) ->
                                writer.Write -> ReadCommit(m); deferred Close at the end
   Closer                Close(), NClose times.

   Named deviations (all FALSE in every claimed configuration; they describe what the
   pinned code did and exist to show that TLC finds the resulting deadlocks):
     DevStale    wait loops of ReadPeek / ReadWait test the cursor loaded before Lock
     DevLeak     end-of-stream return paths keep the mutex
     DevCloseMu  Close broadcasts ccond while holding pcond.L                        *)
EXTENDS Integers, Sequences, FiniteSets, TLC, Json

CONSTANTS Size, Block, Total, MaxChunk, NClose,
          PMode, CMode,      \* "calls" | "pump"
          POps, COps,        \* operation kinds in calls mode
          DevStale, DevLeak, DevCloseMu,
          Eager,             \* replayable schedules only: a woken waiter re-acquires before anyone else moves
          Hist, MaxHist

Procs == {"P", "C", "X"}

VARIABLES pseq, cseq, gate, done, buf,
          pmu, cmu,          \* "free" or the owner
          pwait, cwait,      \* processes parked on pcond / ccond
          pc, loc,           \* control state and locals of each process
          closes, bad,       \* completed Close calls of X; a consumed unit was not the expected one
          hist, prev         \* schedule so far; the state before the last step (schedule generation only)

core == <<pseq, cseq, gate, done, buf, pmu, cmu, pwait, cwait, pc, loc, closes, bad>>
vars == <<core, hist, prev>>

Idx(p) == p % Size
MinOf(a, b) == IF a < b THEN a ELSE b

L0 == [op |-> "-", n |-> 0, ppos |-> 0, cpos |-> 0, wrap |-> 0, cont |-> "-", m |-> 0,
       ret |-> "-", eofs |-> 0, first |-> FALSE, own |-> FALSE]

Init ==
  /\ pseq = 0 /\ cseq = 0 /\ gate = 0 /\ done = 0
  /\ buf = [i \in 0..Size-1 |-> -1]
  /\ pmu = "free" /\ cmu = "free" /\ pwait = {} /\ cwait = {}
  /\ pc = [p \in Procs |-> "idle"]
  /\ loc = [p \in Procs |-> L0]
  /\ closes = 0 /\ bad = FALSE /\ hist = <<>> /\ prev = <<>>

\* history entry: process, step kind, two arguments, and the projection the replayer compares
\* after the step: the yield point the process stops at, cursors, which mutexes are free, result
Entry(p, k, a, n) ==
  p \o " " \o k \o " " \o a \o " " \o ToString(n) \o " " \o pc'[p] \o " " \o ToString(pseq') \o " " \o ToString(cseq')
    \o " " \o (IF pmu' = "free" THEN "1" ELSE "0") \o " " \o (IF cmu' = "free" THEN "1" ELSE "0")
    \o " " \o loc'[p].ret \o " " \o ToString(loc'[p].m)
Rec(p, k, a, n) == hist' = IF Hist THEN Append(hist, Entry(p, k, a, n)) ELSE hist

-----------------------------------------------------------------------------
(* Close, executed by X or as the deferred Close of ReadFrom / WriteTo by P or C.
   The store to done happens in the step that enters Close.                       *)

\* process p returns from the call it is in with end-of-stream
RetEof(l) == [l EXCEPT !.ret = "eof", !.eofs = @ + 1, !.op = "-"]

CloseL1(p) ==
  /\ pc[p] = "x.l1" /\ pmu = "free"
  /\ pwait' = {}
  /\ pc' = [pc EXCEPT ![p] = "x.l2"]
  /\ UNCHANGED <<pseq, cseq, gate, done, buf, pmu, cmu, cwait, loc, closes, bad>>
  /\ Rec(p, "g", "-", 0)

CloseL2(p) ==
  /\ pc[p] = "x.l2"
  /\ IF DevCloseMu THEN pmu = "free" ELSE cmu = "free"
  /\ cwait' = {}
  /\ pc' = [pc EXCEPT ![p] = "idle"]
  /\ closes' = IF p = "X" THEN closes + 1 ELSE closes
  /\ loc' = IF p = "X" THEN loc ELSE [loc EXCEPT ![p] = RetEof(@)]
  /\ UNCHANGED <<pseq, cseq, gate, done, buf, pmu, cmu, pwait, bad>>
  /\ Rec(p, "g", "-", 0)

XStart ==
  /\ pc["X"] = "idle" /\ closes < NClose
  /\ done' = 1
  /\ pc' = [pc EXCEPT !["X"] = "x.l1"]
  /\ UNCHANGED <<pseq, cseq, gate, buf, pmu, cmu, pwait, cwait, loc, closes, bad>>
  /\ Rec("X", "s", "X", 0)

-----------------------------------------------------------------------------
(* Producer *)

\* entering waitForWriteSpace(n): own cursor, cached gate; lock only if the cached gate does not
\* show enough room.  cont = where to go when space is granted.
WfsEnter(l, n, cont) ==
  LET wrap == pseq + n - Size
      l1 == [l EXCEPT !.n = n, !.ppos = pseq, !.wrap = wrap, !.cont = cont]
  IN IF wrap > gate \/ gate > pseq THEN <<"wfs.lock", l1>> ELSE <<cont, l1>>

\* continuation labels that are not yield points of the code but states of the caller
ContPc(l, cont) ==
  IF cont = "ww.ret" THEN (IF Idx(l.ppos) + l.n > Size THEN "ww.wrap" ELSE "ww.fill") ELSE cont

PGoto(res) == /\ pc' = [pc EXCEPT !["P"] = ContPc(res[2], res[1])]
              /\ loc' = [loc EXCEPT !["P"] = res[2]]

\* calls mode: Write(n) or WriteWait(n)
PStart(kind, n) ==
  /\ PMode = "calls" /\ kind \in POps
  /\ pc["P"] = "idle" /\ pseq + n <= Total /\ loc["P"].eofs < 2
  /\ IF done = 1
       THEN /\ loc' = [loc EXCEPT !["P"] = RetEof(@)] /\ UNCHANGED pc
       ELSE PGoto(WfsEnter([loc["P"] EXCEPT !.op = kind, !.ret = "-", !.m = 0], n, IF kind = "W" THEN "w.copy" ELSE "ww.ret"))
  /\ UNCHANGED <<pseq, cseq, gate, done, buf, pmu, cmu, pwait, cwait, closes, bad>>
  /\ Rec("P", "s", kind, n)

\* after WriteWait returned: the caller fills the reservation and calls WriteCommit(n),
\* or, when the reservation wraps, copies through Write(n)
PContinue ==
  /\ pc["P"] \in {"ww.fill", "ww.wrap"}
  /\ IF done = 1
       THEN /\ loc' = [loc EXCEPT !["P"] = RetEof(@)] /\ pc' = [pc EXCEPT !["P"] = "idle"]
       ELSE PGoto(WfsEnter(loc["P"], loc["P"].n, IF pc["P"] = "ww.fill" THEN "wc.set" ELSE "w.copy"))
  /\ UNCHANGED <<pseq, cseq, gate, done, buf, pmu, cmu, pwait, cwait, closes, bad>>
  /\ Rec("P", "c", IF pc["P"] = "ww.fill" THEN "WC" ELSE "W", loc["P"].n)

PLock ==
  /\ pc["P"] = "wfs.lock" /\ pmu = "free"
  /\ pmu' = "P" /\ pc' = [pc EXCEPT !["P"] = "wfs.test"]
  /\ UNCHANGED <<pseq, cseq, gate, done, buf, cmu, pwait, cwait, loc, closes, bad>>
  /\ Rec("P", "g", "-", 0)

\* what happens when a producer-side call ends with end-of-stream inside ReadFrom: deferred Close
PEofPc == IF PMode = "pump" THEN "x.l1" ELSE "idle"

\* loop test of waitForWriteSpace: reload the consumer cursor, test, isDone
PTest ==
  /\ pc["P"] = "wfs.test"
  /\ IF loc["P"].wrap > cseq
       THEN IF done = 1
              THEN /\ pmu' = IF DevLeak THEN pmu ELSE "free"
                   /\ pc' = [pc EXCEPT !["P"] = PEofPc]
                   /\ loc' = [loc EXCEPT !["P"] = IF PMode = "pump" THEN @ ELSE RetEof(@)]
                   /\ UNCHANGED gate
              ELSE /\ pc' = [pc EXCEPT !["P"] = "wfs.wait"] /\ UNCHANGED <<pmu, loc, gate>>
       ELSE /\ gate' = cseq /\ pmu' = "free"
            /\ pc' = [pc EXCEPT !["P"] = ContPc(loc["P"], loc["P"].cont)]
            /\ UNCHANGED loc
  /\ UNCHANGED <<pseq, cseq, done, buf, cmu, pwait, cwait, closes, bad>>
  /\ Rec("P", "g", "-", 0)

PWait ==
  /\ pc["P"] = "wfs.wait"
  /\ pmu' = "free" /\ pwait' = pwait \cup {"P"} /\ pc' = [pc EXCEPT !["P"] = "wfs.parked"]
  /\ UNCHANGED <<pseq, cseq, gate, done, buf, cmu, cwait, loc, closes, bad>>
  /\ Rec("P", "g", "-", 0)

PWake ==
  /\ pc["P"] = "wfs.parked" /\ "P" \notin pwait /\ pmu = "free"
  /\ pmu' = "P" /\ pc' = [pc EXCEPT !["P"] = "wfs.test"]
  /\ UNCHANGED <<pseq, cseq, gate, done, buf, cmu, pwait, cwait, loc, closes, bad>>
  /\ Rec("P", "w", "-", 0)

Stamp(s, n) == [i \in 0..Size-1 |->
                  IF \E k \in 0..n-1 : Idx(s + k) = i
                    THEN CHOOSE v \in s..s+n-1 : Idx(v) = i /\ \A w \in s..s+n-1 : Idx(w) = i => w <= v
                    ELSE buf[i]]

\* Write: ringCopy, cursor store
PCopy ==
  /\ pc["P"] = "w.copy"
  /\ buf' = Stamp(loc["P"].ppos, loc["P"].n) /\ pseq' = loc["P"].ppos + loc["P"].n
  /\ pc' = [pc EXCEPT !["P"] = "w.bc"]
  /\ UNCHANGED <<cseq, gate, done, pmu, cmu, pwait, cwait, loc, closes, bad>>
  /\ Rec("P", "g", "-", 0)

\* WriteCommit: cursor store (the bytes were placed by the caller / the reader before)
PSet ==
  /\ pc["P"] = "wc.set"
  /\ buf' = Stamp(loc["P"].ppos, loc["P"].n) /\ pseq' = loc["P"].ppos + loc["P"].n
  /\ pc' = [pc EXCEPT !["P"] = "wc.bc"]
  /\ UNCHANGED <<cseq, gate, done, pmu, cmu, pwait, cwait, loc, closes, bad>>
  /\ Rec("P", "g", "-", 0)

\* Lock ccond.L; Broadcast; Unlock; return
PBcast ==
  /\ pc["P"] \in {"w.bc", "wc.bc"} /\ cmu = "free"
  /\ cwait' = {}
  /\ pc' = [pc EXCEPT !["P"] = IF PMode = "pump" THEN "rf.top" ELSE "idle"]
  /\ loc' = [loc EXCEPT !["P"].ret = "ok", !["P"].m = loc["P"].n, !["P"].op = IF PMode = "pump" THEN "RF" ELSE "-"]
  /\ UNCHANGED <<pseq, cseq, gate, done, buf, pmu, cmu, pwait, closes, bad>>
  /\ Rec("P", "g", "-", 0)

\* pump mode: ReadFrom(reader)
RFStart ==
  /\ PMode = "pump" /\ pc["P"] = "idle" /\ loc["P"].eofs < 1
  /\ pc' = [pc EXCEPT !["P"] = "rf.top"]
  /\ loc' = [loc EXCEPT !["P"].op = "RF", !["P"].ret = "-"]
  /\ UNCHANGED <<pseq, cseq, gate, done, buf, pmu, cmu, pwait, cwait, closes, bad>>
  /\ Rec("P", "s", "RF", 0)

\* loop top: isDone -> return (deferred Close), else waitForWriteSpace(Block), then reader.Read
RFTop ==
  /\ pc["P"] = "rf.top"
  /\ IF done = 1
       THEN /\ pc' = [pc EXCEPT !["P"] = "x.l1"] /\ UNCHANGED loc
       ELSE PGoto(WfsEnter(loc["P"], Block, "rf.read"))
  /\ UNCHANGED <<pseq, cseq, gate, done, buf, pmu, cmu, pwait, cwait, closes, bad>>
  /\ Rec("P", "g", "-", 0)

\* the scripted reader hands over k units (k = 0: end of input -> ReadFrom returns, deferred Close)
RFData(k) ==
  /\ pc["P"] = "rf.read"
  /\ k <= MinOf(Block, Size - Idx(loc["P"].ppos)) /\ pseq + k <= Total
  /\ IF k = 0 \/ done = 1     \* end of input, or WriteCommit refuses because the ring is closed
       THEN /\ done' = 1 /\ pc' = [pc EXCEPT !["P"] = "x.l1"] /\ UNCHANGED loc
       ELSE /\ UNCHANGED done
            /\ PGoto(WfsEnter(loc["P"], k, "wc.set"))
  /\ UNCHANGED <<pseq, cseq, gate, buf, pmu, cmu, pwait, cwait, closes, bad>>
  /\ Rec("P", "d", "-", k)

-----------------------------------------------------------------------------
(* Consumer *)

CEofPc == IF CMode = "pump" THEN "x.l1" ELSE "idle"
Kind(l) == IF l.op = "R" THEN "r" ELSE IF l.op = "RW" THEN "rw" ELSE "rp"

CStart(kind, n) ==
  /\ CMode = "calls" /\ kind \in COps
  /\ pc["C"] = "idle" /\ cseq + n <= Total /\ loc["C"].eofs < 2
  /\ IF kind = "R" /\ done = 1 /\ pseq = cseq
       THEN /\ loc' = [loc EXCEPT !["C"] = RetEof(@)] /\ UNCHANGED pc
       ELSE /\ loc' = [loc EXCEPT !["C"].op = kind, !["C"].n = n, !["C"].ret = "-", !["C"].m = 0]
            /\ pc' = [pc EXCEPT !["C"] = IF kind = "R" THEN "r.load" ELSE IF kind = "RW" THEN "rw.load" ELSE "rp.load"]
  /\ UNCHANGED <<pseq, cseq, gate, done, buf, pmu, cmu, pwait, cwait, closes, bad>>
  /\ Rec("C", "s", kind, n)

\* loading both cursors
CLoad ==
  /\ pc["C"] \in {"r.load", "rp.load", "rw.load"}
  /\ LET k == Kind(loc["C"])
         l1 == [loc["C"] EXCEPT !.cpos = cseq, !.ppos = pseq, !.first = TRUE]
     IN /\ loc' = [loc EXCEPT !["C"] = l1]
        /\ pc' = [pc EXCEPT !["C"] = IF k = "r" /\ cseq < pseq THEN "r.copy" ELSE k \o ".lock"]
  /\ UNCHANGED <<pseq, cseq, gate, done, buf, pmu, cmu, pwait, cwait, closes, bad>>
  /\ Rec("C", "g", "-", 0)

CLock ==
  /\ pc["C"] \in {"r.lock", "rp.lock", "rw.lock"} /\ cmu = "free"
  /\ cmu' = "C" /\ pc' = [pc EXCEPT !["C"] = Kind(loc["C"]) \o ".test"]
  /\ UNCHANGED <<pseq, cseq, gate, done, buf, pmu, pwait, cwait, loc, closes, bad>>
  /\ Rec("C", "g", "-", 0)

\* the units handed to the caller are checked against the stream
Deliver(cpos, m) == \E i \in 0..m-1 : buf[Idx(cpos + i)] # cpos + i

\* loop test: (re)load the producer cursor, test, isDone
CTest ==
  /\ pc["C"] \in {"r.test", "rp.test", "rw.test"}
  /\ LET k == Kind(loc["C"])
         l == loc["C"]
         pp == IF DevStale /\ l.first /\ k # "r" THEN l.ppos ELSE pseq
         need == IF k = "rw" THEN l.cpos + l.n > pp ELSE l.cpos >= pp
         m == IF k = "rw" THEN l.n ELSE MinOf(l.n, pp - l.cpos)
     IN IF need
          THEN IF done = 1
                 THEN /\ cmu' = IF DevLeak THEN cmu ELSE "free"
                      /\ pc' = [pc EXCEPT !["C"] = CEofPc]
                      /\ loc' = [loc EXCEPT !["C"] = IF CMode = "pump" THEN @ ELSE RetEof(@)]
                      /\ UNCHANGED bad
                 ELSE /\ pc' = [pc EXCEPT !["C"] = k \o ".wait"]
                      /\ loc' = [loc EXCEPT !["C"].first = FALSE]
                      /\ UNCHANGED <<cmu, bad>>
          ELSE /\ cmu' = "free"
               /\ IF k = "r"
                    THEN /\ pc' = [pc EXCEPT !["C"] = "r.load"] /\ UNCHANGED <<loc, bad>>
                    ELSE /\ pc' = [pc EXCEPT !["C"] = IF CMode = "pump" THEN "wt.write" ELSE k \o ".use"]
                         /\ loc' = [loc EXCEPT !["C"].ppos = pp, !["C"].m = m, !["C"].ret = "data"]
                         /\ bad' = (bad \/ Deliver(l.cpos, m))
  /\ UNCHANGED <<pseq, cseq, gate, done, buf, pmu, pwait, cwait, closes>>
  /\ Rec("C", "g", "-", 0)

CWait ==
  /\ pc["C"] \in {"r.wait", "rp.wait", "rw.wait"}
  /\ cmu' = "free" /\ cwait' = cwait \cup {"C"}
  /\ pc' = [pc EXCEPT !["C"] = Kind(loc["C"]) \o ".parked"]
  /\ UNCHANGED <<pseq, cseq, gate, done, buf, pmu, pwait, loc, closes, bad>>
  /\ Rec("C", "g", "-", 0)

CWake ==
  /\ pc["C"] \in {"r.parked", "rp.parked", "rw.parked"} /\ "C" \notin cwait /\ cmu = "free"
  /\ cmu' = "C" /\ pc' = [pc EXCEPT !["C"] = Kind(loc["C"]) \o ".test"]
  /\ UNCHANGED <<pseq, cseq, gate, done, buf, pmu, pwait, cwait, loc, closes, bad>>
  /\ Rec("C", "w", "-", 0)

\* Read: copy out what is there (at most n, at most up to the end of the ring), cursor store
CCopy ==
  /\ pc["C"] = "r.copy"
  /\ LET l == loc["C"]
         m == MinOf(MinOf(l.n, l.ppos - l.cpos), Size - Idx(l.cpos))
     IN /\ bad' = (bad \/ Deliver(l.cpos, m))
        /\ cseq' = l.cpos + m
        /\ loc' = [loc EXCEPT !["C"].m = m]
  /\ pc' = [pc EXCEPT !["C"] = "r.bc"]
  /\ UNCHANGED <<pseq, gate, done, buf, pmu, cmu, pwait, cwait, closes>>
  /\ Rec("C", "g", "-", 0)

\* after ReadPeek / ReadWait returned: the caller uses the bytes and calls ReadCommit(m);
\* in pump mode the writer accepted the bytes (ok) or failed (WriteTo returns, deferred Close)
CContinue(ok) ==
  /\ pc["C"] \in {"rp.use", "rw.use", "wt.write"}
  /\ (pc["C"] # "wt.write") => ok
  /\ bad' = (bad \/ Deliver(loc["C"].cpos, loc["C"].m))       \* still intact when it is committed
  /\ IF ok
       THEN /\ pc' = [pc EXCEPT !["C"] = "rc.set"] /\ UNCHANGED done
       ELSE /\ pc' = [pc EXCEPT !["C"] = "x.l1"] /\ done' = 1
  /\ UNCHANGED <<pseq, cseq, gate, buf, pmu, cmu, pwait, cwait, loc, closes>>
  /\ Rec("C", IF pc["C"] = "wt.write" THEN "d" ELSE "c", "RC", IF ok THEN loc["C"].m ELSE 0)

CSet ==
  /\ pc["C"] = "rc.set"
  /\ cseq' = loc["C"].cpos + loc["C"].m
  /\ pc' = [pc EXCEPT !["C"] = "rc.bc"]
  /\ UNCHANGED <<pseq, gate, done, buf, pmu, cmu, pwait, cwait, loc, closes, bad>>
  /\ Rec("C", "g", "-", 0)

\* Lock pcond.L; Broadcast; Unlock; return
CBcast ==
  /\ pc["C"] \in {"r.bc", "rc.bc"} /\ pmu = "free"
  /\ pwait' = {}
  /\ pc' = [pc EXCEPT !["C"] = IF CMode = "pump" THEN "wt.top" ELSE "idle"]
  /\ loc' = [loc EXCEPT !["C"].ret = "ok", !["C"].op = IF CMode = "pump" THEN "WT" ELSE "-"]
  /\ UNCHANGED <<pseq, cseq, gate, done, buf, pmu, cmu, cwait, closes, bad>>
  /\ Rec("C", "g", "-", 0)

\* pump mode: WriteTo(writer)
WTStart ==
  /\ CMode = "pump" /\ pc["C"] = "idle" /\ loc["C"].eofs < 1
  /\ pc' = [pc EXCEPT !["C"] = "wt.top"]
  /\ loc' = [loc EXCEPT !["C"].op = "WT", !["C"].ret = "-", !["C"].n = Block]
  /\ UNCHANGED <<pseq, cseq, gate, done, buf, pmu, cmu, pwait, cwait, closes, bad>>
  /\ Rec("C", "s", "WT", 0)

WTTop ==
  /\ pc["C"] = "wt.top"
  /\ pc' = [pc EXCEPT !["C"] = IF done = 1 THEN "x.l1" ELSE "rp.load"]
  /\ loc' = [loc EXCEPT !["C"].n = Block]
  /\ UNCHANGED <<pseq, cseq, gate, done, buf, pmu, cmu, pwait, cwait, closes, bad>>
  /\ Rec("C", "g", "-", 0)

-----------------------------------------------------------------------------
PNext == \/ \E k \in POps, n \in 1..MaxChunk : PStart(k, n)
         \/ PContinue \/ PLock \/ PTest \/ PWait \/ PCopy \/ PSet \/ PBcast
         \/ RFStart \/ RFTop \/ (\E k \in 0..Block : RFData(k))
         \/ CloseL1("P") \/ CloseL2("P")
CNext == \/ \E k \in COps, n \in 1..MaxChunk : CStart(k, n)
         \/ CLoad \/ CLock \/ CTest \/ CWait \/ CCopy \/ (\E ok \in BOOLEAN : CContinue(ok)) \/ CSet \/ CBcast
         \/ WTStart \/ WTTop
         \/ CloseL1("C") \/ CloseL2("C")
XNext == XStart \/ CloseL1("X") \/ CloseL2("X")
Wakes == PWake \/ CWake

\* a consumer may only wait for bytes that will come: requests never exceed what is left
\* (cseq + n <= Total) and the producer goes on to Total unless the stream is closed.
PFinished == /\ pc["P"] = "idle"
             /\ \/ loc["P"].eofs >= (IF PMode = "pump" THEN 1 ELSE 2)
                \/ (PMode = "calls" /\ \A n \in 1..MaxChunk : pseq + n > Total)
CFinished == \/ /\ pc["C"] = "idle"
                /\ \/ loc["C"].eofs >= (IF CMode = "pump" THEN 1 ELSE 2)
                   \/ (CMode = "calls" /\ \A n \in 1..MaxChunk : cseq + n > Total)
             \* a draining WriteTo that nobody closes legitimately waits for more
             \/ (CMode = "pump" /\ PMode = "calls" /\ NClose = 0 /\ pc["C"] = "rp.parked" /\ "C" \in cwait
                   /\ cseq = pseq /\ PFinished)
XFinished == pc["X"] = "idle" /\ closes = NClose
Finished == PFinished /\ CFinished /\ XFinished

PrevUpd == prev' = IF Hist THEN core ELSE <<>>
WakeEnabled == ENABLED PWake \/ ENABLED CWake
Next == \/ /\ (Eager /\ WakeEnabled) => Wakes
           /\ (Hist => Len(hist) < MaxHist)
           /\ (PNext \/ CNext \/ XNext \/ Wakes)
           /\ PrevUpd
        \/ (Finished /\ UNCHANGED vars)
Spec == Init /\ [][Next]_vars
FairSpec == Spec /\ WF_vars(PNext /\ PrevUpd) /\ WF_vars(CNext /\ PrevUpd) /\ WF_vars(XNext /\ PrevUpd) /\ WF_vars(Wakes /\ PrevUpd)

-----------------------------------------------------------------------------
\* C14
Fifo == ~bad
NoOverwrite == \A p \in cseq..pseq-1 : buf[Idx(p)] = p
Bounded == pseq - cseq <= Size /\ cseq <= pseq /\ pseq <= Total
\* a reservation handed to the producer never covers unconsumed units
ReservedFree == (pc["P"] \in {"w.copy", "wc.set", "ww.fill", "rf.read"} /\ loc["P"].cont # "-")
                   => loc["P"].ppos + loc["P"].n - Size <= cseq
\* C15: both mutexes free whenever nobody is inside the buffer; deadlock freedom is TLC's
\* deadlock check (every non-final state has a successor); termination under fairness
LocksFreeAtRest == (\A p \in Procs : pc[p] \in {"idle", "ww.fill", "ww.wrap", "rp.use", "rw.use"})
                      => (pmu = "free" /\ cmu = "free")
MutexOwnersSane == /\ pmu \in {"free"} \cup Procs /\ cmu \in {"free"} \cup Procs
                   /\ (pmu = "P") => pc["P"] \in {"wfs.test", "wfs.wait"}
                   /\ (cmu = "C") => pc["C"] \in {"r.test", "rp.test", "rw.test", "r.wait", "rp.wait", "rw.wait"}
Terminates == <>[](Finished)
CloseReturns == (done = 1) ~> (\A p \in Procs : pc[p] = "idle")

\* schedule generation: one witness schedule per transition (state, step, state') of the graph:
\* two steps that lead to the same state from different states are different transitions
Last == IF hist = <<>> THEN "" ELSE hist[Len(hist)]
\* cover of pairs of consecutive steps: a witness for every (state, step, state') triple AND for every step that can
\* follow it.  One step alone is not enough: the model has one control point where the code has a loop (the test of
\* waitForWriteSpace before the first wait and after a wake-up is the same pc), so a change to the code's loop structure
\* shows only in what the process does after a particular predecessor step.
Last2 == IF Len(hist) < 2 THEN hist ELSE SubSeq(hist, Len(hist) - 1, Len(hist))
CoverView == <<core, prev, Last2>>
Post == [pseq |-> pseq, cseq |-> cseq, pmu |-> pmu, cmu |-> cmu, done |-> done,
         pret |-> loc["P"].ret, cret |-> loc["C"].ret, fin |-> Finished]
Emit == hist = <<>> \/ PrintT(ToJson([h |-> hist, post |-> Post]))
=============================================================================
