------------------------------- MODULE Broker -------------------------------
(* The broker (service/server.go, service.go, process.go) in the sequential regime:
   every action is one stimulus by the environment (a client connects, sends one packet,
   goes away; an in-process API call) together with the broker's complete reaction up to
   quiescence.  The reaction is deterministic up to the order inside one fan-out, so a
   step predicts exactly which packets appear on which connection: out[c] is a sequence
   of groups, a group being a bag of packets whose relative order is unspecified.

   The replayer drives a real broker over net.Pipe with raw MQTT packets, separates steps
   by PINGREQ/PINGRESP barriers (first on the stimulated connection, then on all others)
   and compares the packets it read with out[c] after every step.

   conn  : slot -> [st, cid, clean, will]          connections ("free" | "up")
   sess  : client id -> [ex, topics, p2in]         session store; p2in = incoming QoS 2 queue
   subs  : set of [who, f, q]                      the subscription tree (MqttTopic!Matches)
   ret   : topic name -> [has, pl, q]              retained messages
   Subscribers are connection slots or in-process callbacks (Locals).                     *)
EXTENDS MqttTopic, TLC, Json

CONSTANTS Conns, Locals, Cids, NoCid,
          MaxQos,            \* topics.MaxQosAllowed
          MaxSteps

VARIABLES conn, sess, subs, ret, out, closed, last, prev, steps, hist,
          d2      \* per connection: QoS 2 deliveries of the broker that the subscriber has not yet answered with PUBREC
abs == <<conn, sess, subs, ret>>
vars == <<conn, sess, subs, ret, out, closed, last, prev, steps, hist, d2>>

RECURSIVE Join(_)
Join(x) == IF Len(x) = 1 THEN x[1] ELSE x[1] \o "/" \o Join(Tail(x))

NoWill == [on |-> FALSE, t |-> <<"-">>, pl |-> "", q |-> 0, r |-> FALSE]
NoSess == [ex |-> FALSE, topics |-> {}, p2in |-> <<>>]
NewSess == [ex |-> TRUE, topics |-> {}, p2in |-> <<>>]
NoRet == [has |-> FALSE, pl |-> "", q |-> 0]
FreeConn == [st |-> "free", cid |-> NoCid, clean |-> FALSE, will |-> NoWill]

Names == DOMAIN ret
Everyone == Conns \cup Locals
O0 == [c \in Everyone |-> <<>>]
Up(c) == conn[c].st = "up"

\* packets as the replayer sees them
Pkt(ty) == [ty |-> ty, id |-> 0, q |-> 0, r |-> FALSE, dup |-> FALSE, t |-> "", pl |-> "", codes |-> <<>>, sp |-> FALSE, code |-> 0, via |-> ""]
Connack(sp, code) == [Pkt("CONNACK") EXCEPT !.sp = sp, !.code = code]
Ack(ty, id) == [Pkt(ty) EXCEPT !.id = id]
Suback(id, codes) == [Pkt("SUBACK") EXCEPT !.id = id, !.codes = codes]
\* a forwarded PUBLISH: the packet identifier of QoS > 0 deliveries is not specified here (-1 = any non-zero)
Fwd(t, pl, q, r, via) == [Pkt("PUBLISH") EXCEPT !.t = Join(t), !.pl = pl, !.q = q, !.r = r, !.id = IF q > 0 THEN -1 ELSE 0, !.via = via]

Grp(o, c, g) == [o EXCEPT ![c] = Append(@, g)]           \* append a group to c's expected output
GrpIf(o, c, g) == IF g = {} THEN o ELSE Grp(o, c, g)

-----------------------------------------------------------------------------
(* Accept: the broker accepts an application message (linearization point of a PUBLISH):
   retained store update, then one delivery per matching subscription at min(QoS).     *)
RetUpd(R, t, q, pl, retain) ==
  IF ~retain THEN R
  ELSE [R EXCEPT ![t] = IF pl = "" THEN NoRet ELSE [has |-> TRUE, pl |-> pl, q |-> q]]

Deliveries(S, who, t, q, pl) ==
  {Fwd(t, pl, Min(q, s.q), FALSE, Join(s.f)) : s \in {x \in S : x.who = who /\ Matches(x.f, t)}}

FanOut(o, S, t, q, pl) ==
  [c \in Everyone |-> IF Deliveries(S, c, t, q, pl) = {} THEN o[c] ELSE Append(o[c], Deliveries(S, c, t, q, pl))]

RECURSIVE Q2In(_)
Q2In(gs) == IF gs = <<>> THEN 0 ELSE Cardinality({p \in Head(gs) : p.ty = "PUBLISH" /\ p.q = 2}) + Q2In(Tail(gs))
Log(a) == /\ last' = a /\ prev' = abs /\ steps' = steps + 1
          /\ d2' = [c \in Conns |-> IF conn'[c].st # "up" THEN 0
                                     ELSE IF a.a = "subrec" /\ a.c = c THEN d2[c] - 1
                                     ELSE d2[c] + Q2In(out'[c])]
          /\ hist' = Append(hist, [a |-> a, out |-> out', closed |-> closed',
                                    nsess |-> Cardinality({k \in Cids : sess'[k].ex})])

-----------------------------------------------------------------------------
(* CONNECT accepted (3.1, 3.2): session lookup, CONNACK with SessionPresent, stored
   subscriptions active again before anything else is processed.                        *)
\* the forms an acceptable CONNECT can take on the wire without meaning anything different (3.1.2, 3.1.3): keep-alive 0
\* ("none": the broker applies its default), with or without user name and password, either of them of length zero;
\* and a zero-length client identifier, acceptable with CleanSession 1: the broker assigns an identifier nobody else
\* has (3.1.3-6), which the caller expresses by a key k no other connection uses
\* "cutN": the bytes of the plain form reach the broker in two segments, cut after N bytes (from the end if N < 0):
\* inside the fixed header, the protocol name, the client identifier, before the last byte
ConnectForms == {"plain", "ka0", "nouser", "emptyuser", "emptypass", "userpass", "ka0-nouser", "ka0-emptyuser", "ka0-emptypass",
                 "cut1", "cut3", "cut9", "cut13", "cut-1", "userpass-cut-3",
                 \* "rlN": with a password that makes the remaining length exactly N (length field bytes 0x7f / 0x80 0x01 / ...)
                 "rl127", "rl128", "rl129", "rl256", "rl384", "rl16383", "rl16384"}
AnonForms == {"anon", "anon-nouser", "anon-emptyuser", "anon-ka0-emptyuser",
              \* the identifier the broker assigns makes the stored CONNECT longer: remaining lengths just below the
              \* values at which the length field grows by a byte
              "anon-rl112", "anon-rl120", "anon-rl127", "anon-rl16370", "anon-rl16383"}
ConnectF(c, k, clean, will, form) ==
  /\ form \in ConnectForms \cup AnonForms /\ (form \in AnonForms => clean)
  /\ c \in Conns /\ conn[c].st = "free"
  /\ \A d \in Conns : Up(d) => conn[d].cid # k           \* no take-over in the library; no property asks for it
  /\ LET present == ~clean /\ sess[k].ex
         s0 == IF present THEN sess[k] ELSE NewSess
     IN /\ sess' = [sess EXCEPT ![k] = s0]
        /\ subs' = subs \cup {[who |-> c, f |-> x[1], q |-> x[2]] : x \in s0.topics}
        /\ out' = Grp(O0, c, {Connack(present, 0)})
  /\ conn' = [conn EXCEPT ![c] = [st |-> "up", cid |-> k, clean |-> clean, will |-> will]]
  /\ UNCHANGED <<ret, closed>>
  /\ Log([a |-> "connect", c |-> c, k |-> k, clean |-> clean, will |-> [will EXCEPT !.t = Join(will.t)], form |-> form])
Connect(c, k, clean, will) == ConnectF(c, k, clean, will, "plain")

(* A first packet that is not an acceptable CONNECT (3.1.4, 3.2.2.3): CONNACK with the
   refusal code where there is one, connection closed, nothing else changes.
   kind: "level" 1, "name" 1, "idlong" 2, "idbad" 2, "idempty0" 2, "auth" 4, and without
   CONNACK: "reserved", "willflags", "notconnect", "truncated", "garbage"              *)
RefuseCode(kind) == CASE kind \in {"level", "name"} -> 1
                      [] kind \in {"idlong", "idbad", "iddel", "idhigh", "idctl1f", "idempty0"} -> 2   \* identifiers: at most 32 bytes 0x20..0x7e
                      [] kind \in {"auth", "auth-k1-clean", "auth-k1-keep", "auth-badpw", "auth-nopw", "auth-k1-badpw"} -> 4   \* rejected credentials, also with a known client id / a known user name
                      [] OTHER -> 0
Refuse(c, kind, follow) ==
  /\ c \in Conns /\ conn[c].st = "free"
  /\ out' = IF RefuseCode(kind) > 0 THEN Grp(O0, c, {Connack(FALSE, RefuseCode(kind))}) ELSE O0
  /\ closed' = [closed EXCEPT ![c] = TRUE]
  /\ UNCHANGED <<conn, sess, subs, ret>>
  /\ Log([a |-> "refuse", c |-> c, kind |-> kind, follow |-> follow])

-----------------------------------------------------------------------------
(* SUBSCRIBE (3.8, 3.9): per filter in request order: rejected -> 0x80, no entry;
   accepted -> entry replaced or added with min(requested, MaxQos); SUBACK; then the
   retained messages matching each accepted filter, retain flag 1, QoS min(stored, granted) *)
Granted(f, q) == IF ValidFilter(f) /\ q <= 2 THEN Min(q, MaxQos) ELSE 128

RECURSIVE SubAll(_, _, _, _)
SubAll(req, S, T, c) ==                \* thread the subscription set and the session map through the request
  IF req = <<>> THEN <<S, T>>
  ELSE LET f == Head(req)[1]  g == Granted(f, Head(req)[2]) IN
       IF g = 128 THEN SubAll(Tail(req), S, T, c)
       ELSE SubAll(Tail(req),
                   {s \in S : ~(s.who = c /\ s.f = f)} \cup {[who |-> c, f |-> f, q |-> g]},
                   {x \in T : x[1] # f} \cup {<<f, g>>}, c)

RetainedFor(R, f, g) == {Fwd(t, R[t].pl, Min(R[t].q, g), TRUE, Join(f)) : t \in {n \in Names : R[n].has /\ Matches(f, n)}}
RECURSIVE RetGroups(_, _, _)
RetGroups(req, R, o) ==                 \* one group of retained messages per accepted filter, in request order
  IF req = <<>> THEN o
  ELSE LET f == Head(req)[1]  g == Granted(f, Head(req)[2]) IN
       RetGroups(Tail(req), R, IF g = 128 \/ RetainedFor(R, f, g) = {} THEN o ELSE Append(o, RetainedFor(R, f, g)))

Subscribe(c, id, req) ==
  /\ c \in Conns /\ Up(c)
  /\ LET k == conn[c].cid
         st == SubAll(req, subs, sess[k].topics, c)
         codes == [i \in 1..Len(req) |-> Granted(req[i][1], req[i][2])]
     IN /\ subs' = st[1]
        /\ sess' = [sess EXCEPT ![k].topics = st[2]]
        /\ out' = [O0 EXCEPT ![c] = RetGroups(req, ret, <<{Suback(id, codes)}>>)]
  /\ UNCHANGED <<conn, ret, closed>>
  /\ Log([a |-> "subscribe", c |-> c, id |-> id, req |-> [i \in 1..Len(req) |-> [f |-> Join(req[i][1]), q |-> req[i][2]]]])

(* UNSUBSCRIBE (3.10, 3.11) *)
Unsubscribe(c, id, fs) ==
  /\ c \in Conns /\ Up(c)
  /\ LET F == {fs[i] : i \in 1..Len(fs)} IN
       /\ subs' = {s \in subs : ~(s.who = c /\ s.f \in F)}
       /\ sess' = [sess EXCEPT ![conn[c].cid].topics = {x \in @ : x[1] \notin F}]
  /\ out' = Grp(O0, c, {Ack("UNSUBACK", id)})
  /\ UNCHANGED <<conn, ret, closed>>
  /\ Log([a |-> "unsubscribe", c |-> c, id |-> id, fs |-> [i \in 1..Len(fs) |-> Join(fs[i])]])

\* "takes effect at the ack": the same request with many filters the connection does not hold in front of the one it
\* holds (the UNSUBSCRIBE takes the broker a while), and with an observer who does not wait: as soon as the UNSUBACK has
\* arrived, the next stimulus comes (from another connection) - what is accepted after the UNSUBACK was sent is not
\* delivered to the filter that was unsubscribed.  The replayer does not put its PINGREQ barrier on this connection.
UnsubscribeWide(c, id, f) ==
  /\ c \in Conns /\ Up(c)
  /\ subs' = {s \in subs : ~(s.who = c /\ s.f = f)}
  /\ sess' = [sess EXCEPT ![conn[c].cid].topics = {x \in @ : x[1] # f}]
  /\ out' = Grp(O0, c, {Ack("UNSUBACK", id)})
  /\ UNCHANGED <<conn, ret, closed>>
  /\ Log([a |-> "unsubscribe", c |-> c, id |-> id, fs |-> <<Join(f)>>, kind |-> "wide"])

-----------------------------------------------------------------------------
(* PUBLISH received (3.3, 4.3): QoS 0 accept; QoS 1 PUBACK then accept; QoS 2 store
   (unless that identifier is already stored) and PUBREC.
   For a publisher subscribed to its own topic the expected output lists the PUBACK before (Pubrel: the PUBCOMP behind)
   the deliveries the packet causes on the publisher's own connection. That position is a choice of this text, not of any
   property (4.3.2 / 4.3.3 do not order the acknowledgement and the onward delivery): the replayer compares the
   acknowledgements and the deliveries of such a step as two streams.  The same holds for a SUBACK and the retained
   messages of its request (3.8.4: the server may start sending them before the SUBACK).  *)
Publish(c, t, q, retain, pl, id, dup) ==
  /\ c \in Conns /\ Up(c) /\ q \in {0, 1}
  /\ ret' = RetUpd(ret, t, q, pl, retain)
  /\ out' = FanOut(IF q = 1 THEN Grp(O0, c, {Ack("PUBACK", id)}) ELSE O0, subs, t, q, pl)
  /\ UNCHANGED <<conn, sess, subs, closed>>
  /\ Log([a |-> "publish", c |-> c, t |-> Join(t), q |-> q, r |-> retain, pl |-> pl, id |-> id, dup |-> dup])

\* Churn: the client sends enough unrelated traffic (publishes on a topic nobody is subscribed to) for its incoming ring to
\* go round once.  Nothing changes - in particular not what the broker remembered from this connection's earlier
\* packets (filters, topics, payloads, wills), which an implementation must have copied out of the ring.
ChurnTopic == <<"zz", "churn">>
Churn(c) ==
  /\ c \in Conns /\ Up(c) /\ \A x \in subs : ~Matches(x.f, ChurnTopic)
  /\ out' = O0
  /\ UNCHANGED <<conn, sess, subs, ret, closed>>
  /\ Log([a |-> "churn", c |-> c])

Publish2(c, t, retain, pl, id, dup) ==
  /\ c \in Conns /\ Up(c)
  /\ LET k == conn[c].cid
         known == \E i \in 1..Len(sess[k].p2in) : sess[k].p2in[i].id = id
     IN sess' = IF known THEN sess
                ELSE [sess EXCEPT ![k].p2in = Append(@, [id |-> id, t |-> t, pl |-> pl, r |-> retain, rel |-> FALSE])]
  /\ out' = Grp(O0, c, {Ack("PUBREC", id)})
  /\ UNCHANGED <<conn, subs, ret, closed>>
  /\ Log([a |-> "publish", c |-> c, t |-> Join(t), q |-> 2, r |-> retain, pl |-> pl, id |-> id, dup |-> dup])

(* PUBREL (3.6): mark the entry; the released prefix of the queue is accepted, message by
   message, in queue order; then PUBCOMP (also for an unknown identifier).             *)
RECURSIVE RelPrefix(_)
RelPrefix(s) == IF s = <<>> \/ ~Head(s).rel THEN 0 ELSE 1 + RelPrefix(Tail(s))
RECURSIVE Release(_, _, _, _)
Release(ms, R, o, S) ==
  IF ms = <<>> THEN <<R, o>>
  ELSE LET m == Head(ms) IN Release(Tail(ms), RetUpd(R, m.t, 2, m.pl, m.r), FanOut(o, S, m.t, 2, m.pl), S)

Pubrel(c, id) ==
  /\ c \in Conns /\ Up(c)
  /\ LET k == conn[c].cid
         marked == [i \in 1..Len(sess[k].p2in) |->
                      IF sess[k].p2in[i].id = id THEN [sess[k].p2in[i] EXCEPT !.rel = TRUE] ELSE sess[k].p2in[i]]
         n == RelPrefix(marked)
         res == Release(SubSeq(marked, 1, n), ret, O0, subs)
     IN /\ sess' = [sess EXCEPT ![k].p2in = SubSeq(marked, n + 1, Len(marked))]
        /\ ret' = res[1]
        /\ out' = Grp(res[2], c, {Ack("PUBCOMP", id)})
  /\ UNCHANGED <<conn, subs, closed>>
  /\ Log([a |-> "pubrel", c |-> c, id |-> id])

(* PINGREQ (3.12) is what the replayer's barrier is made of; as a stimulus of its own it
   produces nothing but the PINGRESP the barrier consumes.                              *)

-----------------------------------------------------------------------------
(* End of a connection: how = "disconnect" (DISCONNECT packet), "disconnect-eof" (the same, with the end of the stream
   reaching the broker in the same read as the DISCONNECT), "pings-disconnect-eof" (thousands of PINGREQs, the DISCONNECT
   and the end of the stream in one write: the broker sees the end of the stream - and closes its outgoing buffer - while
   the processor still has a backlog whose answers can no longer be written; the DISCONNECT at its end counts all the same:
   the client sent it before it closed), "cut" (network connection
   closed), "bad" (malformed packet: protocol error).  Subscriptions leave the tree, the
   will of THIS connection is accepted unless the end was a DISCONNECT, a clean session is
   discarded.  (3.1.2.5, 3.14)                                                          *)
End(c, how) ==
  /\ c \in Conns /\ Up(c)
  /\ LET k == conn[c].cid
         subs1 == {s \in subs : s.who # c}
         w == conn[c].will
         fire == how \notin {"disconnect", "disconnect-eof", "pings-disconnect-eof"} /\ w.on
     IN /\ subs' = subs1
        /\ ret' = IF fire THEN RetUpd(ret, w.t, w.q, w.pl, w.r) ELSE ret
        /\ out' = IF fire THEN FanOut(O0, subs1, w.t, w.q, w.pl) ELSE O0
        /\ sess' = IF conn[c].clean THEN [sess EXCEPT ![k] = NoSess] ELSE sess
  /\ conn' = [conn EXCEPT ![c] = FreeConn]
  /\ closed' = [closed EXCEPT ![c] = TRUE]
  /\ Log([a |-> "end", c |-> c, how |-> how])

-----------------------------------------------------------------------------
(* In-process API: Server.Publish, Server.Subscribe, Server.Unsubscribe                 *)
ApiPublish(t, q, retain, pl) ==
  /\ ret' = RetUpd(ret, t, q, pl, retain)
  /\ out' = FanOut(O0, subs, t, q, pl)
  /\ UNCHANGED <<conn, sess, subs, closed>>
  /\ Log([a |-> "apipublish", t |-> Join(t), q |-> q, r |-> retain, pl |-> pl])

ApiSubscribe(l, f, q) ==
  /\ l \in Locals /\ ValidFilter(f)
  /\ subs' = {s \in subs : ~(s.who = l /\ s.f = f)} \cup {[who |-> l, f |-> f, q |-> Min(q, MaxQos)]}
  /\ out' = GrpIf(O0, l, RetainedFor(ret, f, Min(q, MaxQos)))
  /\ UNCHANGED <<conn, sess, ret, closed>>
  /\ Log([a |-> "apisubscribe", l |-> l, f |-> Join(f), q |-> q])

\* The callback of the in-process subscriber reports an error while the retained messages are handed to it (kind =
\* "failing"): Server.Subscribe returns that error after the first message; the subscription is registered all the same,
\* and nothing else has changed - in particular the retained messages are what they were (stored QoS included).
\* Only with exactly one matching retained message (so that "the first" is determined).
ApiSubscribeErr(l, f, q) ==
  /\ l \in Locals /\ ValidFilter(f)
  /\ Cardinality(RetainedFor(ret, f, Min(q, MaxQos))) = 1
  /\ subs' = {s \in subs : ~(s.who = l /\ s.f = f)} \cup {[who |-> l, f |-> f, q |-> Min(q, MaxQos)]}
  /\ out' = GrpIf(O0, l, RetainedFor(ret, f, Min(q, MaxQos)))
  /\ UNCHANGED <<conn, sess, ret, closed>>
  /\ Log([a |-> "apisubscribe", l |-> l, f |-> Join(f), q |-> q, kind |-> "failing"])

ApiUnsubscribe(l, f) ==
  /\ l \in Locals /\ (\E s \in subs : s.who = l /\ s.f = f)
  /\ subs' = {s \in subs : ~(s.who = l /\ s.f = f)}
  /\ out' = O0
  /\ UNCHANGED <<conn, sess, ret, closed>>
  /\ Log([a |-> "apiunsubscribe", l |-> l, f |-> Join(f)])

(* The direction broker -> client of a connection breaks while the other direction stays (a half-dead TCP connection: the
   broker's writes fail, its reads just see nothing more).  Nothing the broker holds changes: the connection's subscriptions
   stay until the connection ends, deliveries to it are lost - and nobody else notices (C05): publishes are accepted,
   retained and forwarded to everybody else as before.  What the specification lists as output for a broken connection is
   not compared by the replayer; a broken connection sends nothing more until it ends.                                 *)
BreakOut(c) ==
  /\ c \in Conns /\ Up(c)
  /\ out' = O0
  /\ UNCHANGED <<conn, sess, subs, ret, closed>>
  /\ Log([a |-> "breakout", c |-> c])

-----------------------------------------------------------------------------
InitWith(C, S, U, R) ==
  /\ conn = C /\ sess = S /\ subs = U /\ ret = R
  /\ out = O0 /\ closed = [c \in Conns |-> FALSE]
  /\ last = [a |-> "init"] /\ prev = <<>> /\ steps = 0 /\ hist = <<>>
  /\ d2 = [c \in Conns |-> 0]

-----------------------------------------------------------------------------
(* The broker as sender towards a subscriber (4.3.3): the subscriber answers the oldest QoS 2 delivery it has not
   answered yet with PUBREC; the broker replies PUBREL with the same packet identifier. PUBACK / PUBCOMP of the
   subscriber are consumed silently.                                                                            *)
SubRec(c) ==
  /\ c \in Conns /\ Up(c) /\ d2[c] > 0
  /\ out' = Grp(O0, c, {Ack("PUBREL", -1)})
  /\ UNCHANGED <<conn, sess, subs, ret, closed>>
  /\ Log([a |-> "subrec", c |-> c])
SubAckOther(c, ty) ==
  /\ c \in Conns /\ Up(c)
  /\ out' = O0
  /\ UNCHANGED <<conn, sess, subs, ret, closed>>
  /\ Log([a |-> "suback", c |-> c, ty |-> ty])
(* Acknowledgement packets nobody asked for, sent by a client to which the broker has nothing outstanding ("arbitrary
   other traffic", also carrying the identifier of one of the client's own open QoS 2 exchanges): a PUBREC is answered
   with PUBREL (4.3.3: the receiver of a PUBREC MUST respond with a PUBREL carrying the same identifier), everything
   else is consumed silently; nothing the broker holds changes                                                      *)
Stray(c, ty, id) ==
  /\ c \in Conns /\ Up(c) /\ d2[c] = 0 /\ (\A s \in subs : s.who # c)
  /\ out' = IF ty = "PUBREC" THEN Grp(O0, c, {Ack("PUBREL", id)}) ELSE O0
  /\ UNCHANGED <<conn, sess, subs, ret, closed>>
  /\ Log([a |-> "stray", c |-> c, ty |-> ty, id |-> id])

-----------------------------------------------------------------------------
(* Design-level invariants (checked by TLC on every configuration)                      *)
\* C01/C10: the tree holds exactly the subscriptions of the sessions of live connections
SubsAreSessions ==
  \A c \in Conns : {<<s.f, s.q>> : s \in {x \in subs : x.who = c}} = (IF Up(c) THEN sess[conn[c].cid].topics ELSE {})
\* C10: session state is keyed by client identifier; a clean session does not outlive its connection
CleanLeavesNothing == \A k \in Cids : (sess[k].ex /\ ~\E c \in Conns : Up(c) /\ conn[c].cid = k) =>
                         TRUE
OneConnPerId == \A c, d \in Conns : (Up(c) /\ Up(d) /\ conn[c].cid = conn[d].cid) => c = d
\* C07/C01: only valid filters with a granted QoS are stored
StoredValid == \A s \in subs : ValidFilter(s.f) /\ s.q \in 0..MaxQos
\* C08: at most one retained message per topic, never with an empty payload
RetainedSane == \A t \in Names : ret[t].has => ret[t].pl # ""
\* C02: identifiers in an incoming QoS 2 queue are distinct
P2Distinct == \A k \in Cids : \A i, j \in 1..Len(sess[k].p2in) : i # j => sess[k].p2in[i].id # sess[k].p2in[j].id
TypeOK == SubsAreSessions /\ OneConnPerId /\ StoredValid /\ RetainedSane /\ P2Distinct

(* Action properties of single steps                                                    *)
StepProps ==
  [][ /\ (last'.a = "refuse") => abs' = abs                                      \* C11: a refused connection is inert
      /\ (last'.a \in {"publish", "apipublish", "pubrel"}) => (subs' = subs /\ conn' = conn)
      /\ (last'.a \in {"subscribe", "unsubscribe"}) => ret' = ret
      /\ (last'.a = "subscribe") => Len(out'[last'.c]) >= 1                         \* C07: always answered
      /\ (last'.a = "end" /\ last'.how = "disconnect") => (ret' = ret /\ \A c \in Everyone : out'[c] = <<>>)   \* C09
      /\ (last'.a = "connect" /\ last'.clean) => sess'[last'.k].topics = {}             \* C10: clean start
    ]_vars

\* generation
CoverView == <<abs, prev, last>>
Emit == hist = <<>> \/ PrintT(ToJson(hist))
EmitFull == steps < MaxSteps \/ PrintT(ToJson(hist))
=============================================================================
