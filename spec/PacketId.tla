------------------------------ MODULE PacketId ------------------------------
(* The process-wide counter behind automatically assigned packet identifiers
   (message/header.go gPacketID).  Design: the i-th assignment yields IdOf(i), which is
   never 0 (MQTT-2.3.1-1), however many packets were encoded before.               *)
EXTENDS Integers
CONSTANT N
VARIABLE ctr
IdOf(c) == ((c - 1) % 65535) + 1
Init == ctr = 0
Next == ctr < N /\ ctr' = ctr + 1
Spec == Init /\ [][Next]_ctr
IdNonZero == ctr > 0 => IdOf(ctr) \in 1..65535
=============================================================================
