------------------------------ MODULE RingEdge ------------------------------
(* The guards of the Ring specification at byte granularity.  Ring.tla is explored in units (one unit stands for 4 KiB in
   the replayer), which decides every interleaving but cannot tell "exactly enough room" from "one byte short".  The
   two guards are arithmetic:

     producer (Ring!PTest)   a request for n bytes at producer cursor p waits  iff  p + n - Size > c
     consumer (Ring!CTest)   a request for n bytes at consumer cursor c waits  iff  c + n > p

   This module enumerates cursor positions (before, at and after the physical end of the ring), request sizes and a
   distance d of -1, 0, +1 bytes from the boundary, and states for each case whether the call waits and how many bytes the
   other side must commit before it may (and must) proceed.  The replayer puts a real buffer into that state, makes the
   call, and compares: parked or returned, released by exactly the missing bytes (not one earlier), stream intact.  *)
EXTENDS Integers, TLC, Json

CONSTANT Size                         \* bytes of the ring (a power of two, as newBuffer requires)

PWaits(p, c, n) == p + n - Size > c
CWaits(p, c, n) == c + n > p
Max0(x) == IF x > 0 THEN x ELSE 0

Ns == {1, 2, 4095, 4096, 8192, 8193, 12000, Size - 1, Size}
Cs == {0, 1, 5000, Size - 1, Size, Size + 7, 2 * Size + 4096}      \* bytes consumed so far (consumer cursor)
Ds == {-1, 0, 1}

\* producer: the ring holds `used` bytes, free room = Size - used = n + d
PCases == {[side |-> "P", c |-> c, used |-> Size - n - d, n |-> n,
            waits |-> PWaits(c + (Size - n - d), c, n), missing |-> Max0(c + (Size - n - d) + n - Size - c)] :
             c \in Cs, n \in Ns, d \in Ds}
\* consumer: the ring holds `used` = n + d bytes
CCases == {[side |-> "C", c |-> c, used |-> n + d, n |-> n,
            waits |-> CWaits(c + n + d, c, n), missing |-> Max0(c + n - (c + n + d))] :
             c \in Cs, n \in Ns, d \in Ds}
\* Close against a waiter that has tested the done flag and is about to call Wait (it holds the condition's mutex):
\* Ring!CloseL1 / CloseL2 are enabled only when that mutex is free, so Close cannot get past its Lock() before the
\* waiter is inside Wait - which is what makes the broadcast reach it.  Afterwards the waiter returns end-of-stream.
\* (n = 0: the ring is empty / full as needed by the waiter.)
CloseCases == {[side |-> "X", c |-> c, used |-> IF w \in {"Write", "WriteWait"} THEN Size ELSE 0, n |-> 1,
                waits |-> TRUE, missing |-> 0, waiter |-> w] :
                 c \in {0, 5000}, w \in {"Read", "ReadPeek", "ReadWait", "Write", "WriteWait"}}
\* The same for the broadcast that follows a commit: every committing call (Write, WriteCommit towards the consumer;
\* ReadCommit, Read towards the producer) stores the cursor and then takes the other side's mutex for its broadcast
\* (Ring!...B1 steps are enabled only when that mutex is free).  A waiter that tested the cursor before the store and holds
\* the mutex is inside Wait before the broadcast happens, so the broadcast reaches it: it returns with the data / the room.
WakeCases == {[side |-> "Y", c |-> c, used |-> IF w \in {"Write", "WriteWait"} THEN Size ELSE 0, n |-> 16,
               waits |-> TRUE, missing |-> 16, waiter |-> w, committer |-> k] :
                c \in {0, 5000},
                w \in {"Read", "ReadPeek", "ReadWait", "Write", "WriteWait"},
                k \in {"Write", "WriteCommit", "ReadCommit", "Read"}}
WakeOK(x) == (x.waiter \in {"Read", "ReadPeek", "ReadWait"}) <=> (x.committer \in {"Write", "WriteCommit"})
Cases == {x \in PCases \cup CCases : x.used >= 0 /\ x.used <= Size} \cup CloseCases \cup {x \in WakeCases : WakeOK(x)}

VARIABLE st
Init == st \in Cases
Next == UNCHANGED st
Spec == Init /\ [][Next]_st

\* the boundary is where the enumeration says it is: a call waits exactly when it is short, by exactly the missing bytes
Boundary == st.side \in {"X", "Y"} \/ ((st.waits <=> st.missing > 0) /\ st.missing <= 1)
Emit == PrintT(ToJson(st))
=============================================================================
