------------------------------ MODULE KeepAlive ------------------------------
(* Time fragment of the broker (service/sendrecv.go timeoutReader, receiver): the read
   deadline of 1.2 x KeepAlive is re-armed on every read.

   Time is a grid of K/10.  A connection whose last packet is less than 1.2 K (12 grid
   units) old is never dropped (ActiveNeverDropped); time cannot pass 1.6 K (16 units) of
   silence without the connection having been dropped (urgency, SilentDropped); an
   expiry is an abnormal end: the will is published; a PINGREQ is answered by a PINGRESP.

   A behaviour is a client schedule: gaps (in grid units) between the packets it sends,
   then silence.  TLC enumerates the schedules and predicts, for each packet, that the
   connection is still up, and when it must be gone.                                  *)
EXTENDS Integers, Sequences, TLC, Json

\* the keep-alive the broker applies for the value the CONNECT carries: 0 ("none") is replaced by a default of 30 s
\* (server.go minKeepAlive); K below is always the effective value, and the grid unit is Effective(requested)/10
DefaultKeepAlive == 30
Effective(requested) == IF requested = 0 THEN DefaultKeepAlive ELSE requested

CONSTANTS Gaps,        \* gaps between packets that keep the connection alive (< 10 units, i.e. < K)
          LongGaps,    \* gaps well over 1.5 K: the connection must be gone afterwards
          MaxSends, Kinds,
          BacklogHold  \* how long a client that does not read keeps a backlog of packets on offer (> 12 units)

VARIABLES now, last, up, sends, will, hist,
          fed        \* the client is subscribed to a topic on which somebody else publishes all the time: what the broker
                     \* SENDS to a client says nothing about the client being alive - only what it receives from it counts
\* (The server's own KeepAlive configuration option is set to 1 s in every run: it is no part of what a client negotiates.)
\* prior: the connection resumes a stored session (CleanSession 0) whose earlier connection had negotiated another
\* keep-alive ("long": 60 s): the keep-alive is a matter of the connection, what counts is this CONNECT's value;
\* "rival": while this connection is up, another one presents the same client identifier (CleanSession 1, no will, long
\* keep-alive) and stays: the library keeps both connections (no take-over), and whatever the newcomer does to the stored
\* session, this connection's keep-alive, its end and its will remain its own
CONSTANT Priors
VARIABLE prior
\* deaf: the client never reads what the broker sends it.  A deaf client that is fed has its outgoing ring full before long,
\* with the feeder's delivery blocked on it - the state in which the expiry of its keep-alive has to get rid of it
VARIABLE deaf
\* Named deviation of the implementation (known finding C19 stalled-receiver).  The deadline only runs while the receiver is
\* inside a read.  A deaf, fed client's outgoing ring is full and the feeder's delivery waits on it holding the connection's
\* write lock; once the client has sent a packet that must be answered (PINGREQ), its own processor waits for that lock and
\* consumes nothing more (answerDue); input that then fills the incoming ring to within a read block (partbig) leaves the
\* receiver waiting for room, outside any read: no deadline runs, the client is never dropped (stalled).
CONSTANT DevStalledReceiver
VARIABLES answerDue, stalled
vars == <<now, last, up, sends, will, hist, fed, prior, deaf, answerDue, stalled>>

Init == now = 0 /\ last = 0 /\ up = TRUE /\ sends = 0 /\ will = FALSE /\ hist = <<>> /\ fed \in BOOLEAN /\ prior \in Priors
        /\ deaf \in BOOLEAN /\ (deaf => fed /\ prior = "none")
        /\ answerDue = FALSE /\ stalled = FALSE

\* the last thing the client sent was the beginning of a packet ("part1": its first byte, "part3": a PUBLISH header
\* announcing more than follows): these are bytes like any others (the deadline counts from them), and the rest never comes
\* "partbig": all but the last bytes of the longest packet the ring takes (remaining length = ring minus a read block):
\* the broker may refuse it at once or wait for the rest - either way the connection is gone after the silence
Partial(k) == k \in {"part1", "part3", "partbig"}
MidPacket == hist # <<>> /\ Partial(hist[Len(hist)].kind)

\* "backlog": the client offers more PINGREQs than the broker can take while the client reads none of the answers (the
\* rings to and from the client fill up and the broker stops reading), keeps them on offer for BacklogHold units - longer
\* than the deadline of 1.2 K - and then reads all the answers, so that the rest is taken: there were bytes of the client
\* waiting to be read all the time, it was never silent (what counts is when the client sends, not when the broker reads)
Hold(kind) == IF kind = "backlog" THEN BacklogHold ELSE 0

\* the client lets g grid units pass and then sends a packet of the given kind
Send(g, kind) ==
  /\ up /\ sends < MaxSends /\ g \in Gaps /\ ~MidPacket /\ ~(deaf /\ kind = "backlog")
  /\ now' = now + g + Hold(kind) /\ last' = now + g + Hold(kind) /\ sends' = sends + 1
  /\ hist' = Append(hist, [gap |-> g, kind |-> kind, expect |-> "up", fed |-> fed, prior |-> prior, hold |-> Hold(kind), deaf |-> deaf])
  /\ answerDue' = (answerDue \/ (deaf /\ kind = "ping"))
  /\ stalled' = (stalled \/ (DevStalledReceiver /\ answerDue' /\ kind = "partbig"))
  /\ UNCHANGED <<up, will, fed, prior, deaf>>

\* the client stays silent for g units: the deadline passes, the broker drops the connection
\* as an abnormal end (will published); whatever the client sends afterwards finds it gone
Silence(g) ==
  /\ up /\ g \in LongGaps /\ ~stalled
  /\ now' = now + g /\ up' = FALSE /\ will' = TRUE
  /\ hist' = Append(hist, [gap |-> g, kind |-> "none", expect |-> "dropped", fed |-> fed, prior |-> prior, hold |-> 0, deaf |-> deaf])
  /\ UNCHANGED <<last, sends, fed, prior, deaf, answerDue, stalled>>
\* the deviation: the silence passes and the connection is still there (the replayer reports it as the known finding when
\* it observes this, and says nothing when the connection was dropped after all)
SilenceStalled(g) ==
  /\ up /\ g \in LongGaps /\ stalled
  /\ now' = now + g /\ sends' = MaxSends
  /\ hist' = Append(hist, [gap |-> g, kind |-> "none", expect |-> "stalled", fed |-> fed, prior |-> prior, hold |-> 0, deaf |-> deaf])
  /\ UNCHANGED <<last, up, will, fed, prior, deaf, answerDue, stalled>>

Next == (\E g \in Gaps, k \in Kinds : Send(g, k)) \/ (\E g \in LongGaps : Silence(g) \/ (hist # <<>> /\ hist[Len(hist)].expect # "stalled" /\ SilenceStalled(g)))
Spec == Init /\ [][Next]_vars

\* an expiry only ever happens after at least 1.2 K of silence, and none is overdue
ActiveNeverDropped == [][(up /\ ~up') => (now' - last >= 12)]_vars
SilentDropped == (up /\ ~stalled) => now - last < 16
WillIffExpired == will <=> ~up
Emit == (up /\ ~(hist # <<>> /\ hist[Len(hist)].expect = "stalled")) \/ PrintT(ToJson(hist))
=============================================================================
