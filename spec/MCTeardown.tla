---- MODULE MCTeardown ----
EXTENDS Teardown
CONSTANTS c1, c2
PubSubSubs == (c1 :> {c2}) @@ (c2 :> {})
CrossSubs == (c1 :> {c2}) @@ (c2 :> {c1})
WillFirst == (c1 :> TRUE) @@ (c2 :> FALSE)
WillBoth == (c1 :> TRUE) @@ (c2 :> TRUE)
====
