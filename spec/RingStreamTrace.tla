-------------------------- MODULE RingStreamTrace --------------------------
(* Direction B for C14: free-running producer / consumer pairs on real ring buffers
   (real scheduling, random chunk sizes at byte granularity, all operation kinds).
   The producer logs "put n" BEFORE the call that hands n bytes to the ring, the
   consumer logs "got n ok" AFTER the call that returned n bytes (ok = the bytes are
   the next n bytes of the position-dependent stream), both with one global sequence
   number, so the log order is consistent with causality.  The abstract ring is a
   byte counter pair: whatever the consumer obtains is the next part of what the
   producer has handed over, never more, never out of place.                      *)
EXTENDS Integers, Sequences, TLC, Json

Trace == ndJsonDeserialize("trace.ndjson")

VARIABLES put, got, size, l, stats
vars == <<put, got, size, l, stats>>

Init == put = 0 /\ got = 0 /\ size = 0 /\ l = 1 /\ stats = [traces |-> 0, bytes |-> 0, maxlag |-> 0]

Ev == Trace[l]

Reset == /\ Ev.e = "reset"
         /\ put' = 0 /\ got' = 0 /\ size' = Ev.size
         /\ stats' = [stats EXCEPT !.traces = @ + 1]
Put ==   /\ Ev.e = "put" /\ Ev.n > 0
         /\ put' = put + Ev.n /\ UNCHANGED <<got, size>>
         /\ stats' = [stats EXCEPT !.bytes = @ + Ev.n]
\* the consumer can only have obtained bytes the producer had already handed over, they
\* are the next bytes of the stream (ok), and the lag never exceeds the ring plus one call
\* in flight on each side (a put is logged before its call, a got after its call; calls
\* move at most 8192 bytes)
Got ==   /\ Ev.e = "got"
         /\ Ev.ok = TRUE
         /\ got + Ev.n <= put
         /\ got' = got + Ev.n /\ UNCHANGED <<put, size>>
         /\ stats' = [stats EXCEPT !.maxlag = IF put - got > @ THEN put - got ELSE @]

Next == l <= Len(Trace) /\ l' = l + 1 /\ (Reset \/ Put \/ Got)
Spec == Init /\ [][Next]_vars

PrefixInv == got <= put
LagInv == put - got <= size + 2 * 8192
Accepted == TLCGet("stats").diameter - 1 = Len(Trace)
Report == l <= Len(Trace) \/ PrintT(ToJson([report |-> stats, events |-> Len(Trace)]))
=============================================================================
