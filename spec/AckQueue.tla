------------------------------ MODULE AckQueue ------------------------------
(* sessions/ackqueue.go: the queue of in-flight requests of one kind.  One action
   per public method (each is one critical section under Ackqueue.mu).

   q    : sequence of entries [id, kind, c, state, ac]
            id    packet identifier
            kind  "pub1" | "pub2" | "sub" | "unsub"   (what was registered)
            c     content tag of the registered message (the replayer expands a tag to
                  distinct bytes and overwrites its own buffers after every call, so a
                  queue that keeps a reference instead of a copy hands back wrong bytes)
            state "none" or the type of the last acknowledgement received
            ac    content tag of that acknowledgement
   ping : the single PINGREQ slot  [on, state, c]
   size, head, tail : shadow of the ring arithmetic of the code (initial capacity 16,
          doubling when full, re-indexed from 0).  They do not influence the abstract
          behaviour; they exist so that growth-while-wrapped is measured, not hoped for. *)
EXTENDS Integers, Sequences, FiniteSets, TLC, Json

CONSTANTS Ids,        \* packet identifiers used by Wait
          AckIds,     \* packet identifiers used by Ack (a superset: unknown ids)
          Kinds,      \* subset of {"pub1","pub2","sub","unsub"}
          Tags,       \* content tags of requests
          AckTags,    \* content tags of acknowledgements (SUBACK return codes differ, others have none)
          AckTypes,   \* subset of {"PUBACK","PUBREC","PUBREL","PUBCOMP","SUBACK","UNSUBACK"}
          WithPing, WithBad,
          MaxLen,     \* bound on Len(q) (graph mode), large in simulation
          InitSize,
          MaxSteps, Hist,
          RegBias     \* simulation: number of duplicate Wait disjuncts (bias towards registering)

VARIABLES q, ping, size, head, tail, last, steps, hist, grown

abs == <<q, ping>>
vars == <<q, ping, size, head, tail, last, steps, hist, grown>>

Terminal == {"PUBACK", "PUBREL", "PUBCOMP", "SUBACK", "UNSUBACK"}
NoPing == [on |-> FALSE, state |-> "none", c |-> ""]

Init == /\ q = <<>> /\ ping = NoPing
        /\ size = InitSize /\ head = 0 /\ tail = 0
        /\ last = [a |-> [a |-> "init"], r |-> [ok |-> TRUE, out |-> <<>>]]
        /\ steps = 0 /\ hist = <<>> /\ grown = [n |-> 0, wrapped |-> 0]

Has(id) == \E i \in 1..Len(q) : q[i].id = id

Log(a, r) ==
  /\ last' = [a |-> a, r |-> r]
  /\ IF Hist THEN /\ steps' = steps + 1
                  /\ hist' = Append(hist, [a |-> a, r |-> r, n |-> Len(q')])
             ELSE UNCHANGED <<steps, hist>>

NoOut == <<>>

----------------------------------------------------------------------------
\* Wait: register a request.  A PUBLISH with QoS 0 and anything that is not a request are
\* refused; a request whose id is already queued is ignored (the queue is unchanged);
\* PINGREQ overwrites the single ping slot.
Wait(kind, id, c) ==
  /\ kind \in Kinds /\ Len(q) < MaxLen
  /\ LET full  == Len(q) = size
         size1 == IF full THEN 2 * size ELSE size
         head1 == IF full THEN 0 ELSE head
         tail1 == IF full THEN Len(q) ELSE tail
     IN /\ IF Has(id)
             THEN /\ UNCHANGED q /\ tail' = tail1
             ELSE /\ q' = Append(q, [id |-> id, kind |-> kind, c |-> c, state |-> "none", ac |-> ""])
                  /\ tail' = (tail1 + 1) % size1
        /\ size' = size1 /\ head' = head1
        /\ grown' = IF full THEN [n |-> grown.n + 1, wrapped |-> grown.wrapped + (IF head # 0 THEN 1 ELSE 0)] ELSE grown
  /\ UNCHANGED ping
  /\ Log([a |-> "wait", kind |-> kind, id |-> id, c |-> c], [ok |-> TRUE, out |-> NoOut])

WaitPing(c) ==
  /\ WithPing
  /\ ping' = [on |-> TRUE, state |-> "none", c |-> c]
  /\ UNCHANGED <<q, size, head, tail, grown>>
  /\ Log([a |-> "wait", kind |-> "ping", id |-> 0, c |-> c], [ok |-> TRUE, out |-> NoOut])

\* QoS 0 PUBLISH ("pub0") and a message that is not a request ("bad": a PUBACK) are refused
WaitRefused(kind) ==
  /\ WithBad /\ kind \in {"pub0", "bad"}
  /\ UNCHANGED <<q, ping, size, head, tail, grown>>
  /\ Log([a |-> "wait", kind |-> kind, id |-> 1, c |-> ""], [ok |-> FALSE, out |-> NoOut])

\* Ack: the entry with that id, wherever it is in the queue, takes the state and a copy of the
\* acknowledgement; an unknown id changes nothing.
Ack(ty, id, c) ==
  /\ ty \in AckTypes
  /\ q' = [i \in 1..Len(q) |-> IF q[i].id = id THEN [q[i] EXCEPT !.state = ty, !.ac = c] ELSE q[i]]
  /\ UNCHANGED <<ping, size, head, tail, grown>>
  /\ Log([a |-> "ack", ty |-> ty, id |-> id, c |-> c], [ok |-> TRUE, out |-> NoOut])

AckPing ==
  /\ WithPing
  /\ ping' = IF ping.on THEN [ping EXCEPT !.state = "PINGRESP"] ELSE ping
  /\ UNCHANGED <<q, size, head, tail, grown>>
  /\ Log([a |-> "ack", ty |-> "PINGRESP", id |-> 0, c |-> ""], [ok |-> TRUE, out |-> NoOut])

AckRefused ==
  /\ WithBad
  /\ UNCHANGED <<q, ping, size, head, tail, grown>>
  /\ Log([a |-> "ack", ty |-> "PUBLISH", id |-> 1, c |-> ""], [ok |-> FALSE, out |-> NoOut])

\* Acked: the answered ping first, then the maximal prefix of entries in a terminal state
RECURSIVE TermPrefixR(_)
TermPrefixR(s) == IF s = <<>> \/ Head(s).state \notin Terminal THEN 0 ELSE 1 + TermPrefixR(Tail(s))
\* (the same without recursion for queues of tens of thousands of entries, where Tail copies too much)
TermPrefix(s) == IF Len(s) <= 5000 THEN TermPrefixR(s)
                 ELSE IF Head(s).state \notin Terminal THEN 0
                 ELSE LET bad == {i \in 1..Len(s) : s[i].state \notin Terminal} IN
                      IF bad = {} THEN Len(s) ELSE (CHOOSE i \in bad : \A j \in bad : i <= j) - 1

Acked ==
  LET n == TermPrefix(q)
      pingOut == IF ping.state = "PINGRESP"
                   THEN <<[id |-> 0, kind |-> "ping", c |-> ping.c, state |-> "PINGRESP", ac |-> ""]>> ELSE <<>>
  IN /\ q' = SubSeq(q, n + 1, Len(q))
     /\ ping' = IF ping.state = "PINGRESP" THEN NoPing ELSE ping
     /\ head' = (head + n) % size
     /\ UNCHANGED <<size, tail, grown>>
     /\ Log([a |-> "acked"], [ok |-> TRUE, out |-> pingOut \o SubSeq(q, 1, n)])

Step ==
  \/ \E k \in Kinds, id \in Ids, c \in Tags : Wait(k, id, c)
  \/ \E b \in 1..RegBias, k \in Kinds, id \in Ids, c \in Tags : (b > 1 /\ ~Has(id) /\ Wait(k, id, c))
  \/ WaitPing("x")
  \/ \E k \in {"pub0", "bad"} : WaitRefused(k)
  \/ \E ty \in AckTypes, id \in AckIds, c \in AckTags : Ack(ty, id, c)
  \/ AckPing \/ AckRefused
  \/ Acked

Finish == steps' = steps + 1 /\ UNCHANGED <<q, ping, size, head, tail, last, hist, grown>>
Next == \/ (~Hist /\ Step)
        \/ (Hist /\ steps < MaxSteps /\ Step)
        \/ (Hist /\ steps = MaxSteps /\ Finish)
Spec == Init /\ [][Next]_vars

----------------------------------------------------------------------------
\* C13 as invariants and action properties of the design
IdsDistinct == \A i, j \in 1..Len(q) : i # j => q[i].id # q[j].id
ShadowOK == /\ Len(q) <= size /\ head \in 0..size-1 /\ tail \in 0..size-1
            /\ (head + Len(q)) % size = tail
TypeOK == IdsDistinct /\ ShadowOK

Out == last'.r.out
FifoRelease ==
  [][ LET a == last'.a IN
      \* only Acked removes entries, from the head, in order, each in a terminal state
      /\ (a.a # "acked") => (Len(q') >= Len(q) /\ \A i \in 1..Len(q) : q'[i].id = q[i].id /\ q'[i].kind = q[i].kind /\ q'[i].c = q[i].c)
      /\ (a.a = "acked") => /\ \A i \in 1..Len(Out) : Out[i].kind # "ping" => Out[i].state \in Terminal
                            /\ q' = SubSeq(q, Len(q) - Len(q') + 1, Len(q))
                            /\ (q' # <<>> => Head(q').state \notin Terminal)
      \* an acknowledgement changes at most the entry bearing its id, an unknown id nothing
      /\ (a.a = "ack" /\ a.ty # "PINGRESP") => \A i \in 1..Len(q) : q[i].id # a.id => q'[i] = q[i]
      /\ (a.a = "ack" /\ ~Has(a.id)) => q' = q
      \* registering an id that is already queued changes nothing
      /\ (a.a = "wait" /\ a.kind \in Kinds /\ Has(a.id)) => q' = q
    ]_vars

----------------------------------------------------------------------------
AbsView == abs
RECURSIVE QId(_)
QId(s) == IF s = <<>> THEN "" ELSE ToString(Head(s).id) \o Head(s).kind \o Head(s).c \o Head(s).state \o Head(s).ac \o ";" \o QId(Tail(s))
StateId == QId(q) \o "|" \o (IF ping.on THEN "on" ELSE "off") \o ping.state \o ping.c
StateId2 == QId(q') \o "|" \o (IF ping'.on THEN "on" ELSE "off") \o ping'.state \o ping'.c
Probe == [n |-> Len(q)]
EmitState == PrintT(ToJson([S |-> StateId, P |-> Probe]))
EmitEdge == PrintT(ToJson([s |-> StateId, a |-> last'.a, r |-> last'.r, t |-> StateId2]))
\* simulation: print only histories in which the ring grew at least GrowMin times, once while wrapped
EmitHist == (steps <= MaxSteps) \/ (grown.n < 3 \/ grown.wrapped < 1) \/
   PrintT(ToJson([h |-> hist, grown |-> grown]))
=============================================================================
