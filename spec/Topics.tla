------------------------------- MODULE Topics -------------------------------
(* The topic store (topics/memtopics.go) as a state machine: one action per
   public method, each of which is one critical section under smu or rmu.

   subs : set of [w, f, q]      at most one entry per (subscriber, filter)
   ret  : Names -> [has, pl, q] at most one retained message per topic

   Results of look-ups are bags (the trie iterates Go maps, so order inside one
   result is unspecified in the code and here).

   Two ways of handing behaviours to the replayer:
     Hist = FALSE  the state is the abstract state only; TLC prints the complete
                   state graph (EmitState / EmitEdge) and the replayer walks every
                   path of it up to a depth, random walks, and a transition cover;
     Hist = TRUE   the operation history is carried in the state and printed
                   (simulation mode, large vocabularies).                      *)
EXTENDS MqttTopic, TLC, Json

CONSTANTS Whos,        \* subscriber identities
          Filters,     \* filter vocabulary (valid and invalid ones)
          Names,       \* topic-name vocabulary
          MaxQos,      \* topics.MaxQosAllowed
          QosReq,      \* requested QoS values (3 = out of range)
          Payloads,    \* non-empty payload identities
          RetQos,      \* QoS values of retained publishes
          MaxSteps, Hist,
          WithNil      \* include Unsubscribe(filter, nil) (client role)

VARIABLES subs, ret, last, steps, hist

abs == <<subs, ret>>
vars == <<subs, ret, last, steps, hist>>

NoRet == [has |-> FALSE, pl |-> "", q |-> 0]

Init == /\ subs = {} /\ ret = [t \in Names |-> NoRet]
        /\ last = [a |-> [a |-> "init"], r |-> [ok |-> TRUE, q |-> 0]] /\ steps = 0 /\ hist = <<>>

RECURSIVE Join(_)
Join(x) == IF Len(x) = 1 THEN x[1] ELSE x[1] \o "/" \o Join(Tail(x))

----------------------------------------------------------------------------
\* look-ups (pure)
MatchBag(S, t, pq) == {[w |-> s.w, f |-> Join(s.f), q |-> Min(pq, s.q)] : s \in {x \in S : Matches(x.f, t)}}
RetainedSet(R, f) == {[t |-> Join(t), pl |-> R[t].pl, q |-> R[t].q] : t \in {n \in Names : R[n].has /\ Matches(f, n)}}

\* what the replayer checks after every step: every name looked up at every publish
\* QoS (QoS 2 shows the stored value, the others the minimum), every valid filter of
\* the vocabulary looked up in the retained store
Probe(S, R) ==
  [sub  |-> {[t |-> Join(t), pq |-> pq, bag |-> MatchBag(S, t, pq)] : t \in Names, pq \in 0..2},
   ret  |-> {[f |-> Join(f), set |-> RetainedSet(R, f)] : f \in {g \in Filters : ValidFilter(g)}}]

Log(a, res) ==
  /\ last' = [a |-> a, r |-> res]
  /\ IF Hist THEN /\ steps' = steps + 1
                  /\ hist' = Append(hist, [a |-> a, r |-> res, s |-> subs', rt |-> ret'])
             ELSE UNCHANGED <<steps, hist>>

----------------------------------------------------------------------------
Subscribe(w, f, q) ==
  IF ~ValidFilter(f) \/ q > 2
    THEN /\ UNCHANGED <<subs, ret>>
         /\ Log([a |-> "sub", w |-> w, f |-> Join(f), q |-> q], [ok |-> FALSE, q |-> 128])
    ELSE /\ subs' = {s \in subs : ~(s.w = w /\ s.f = f)} \cup {[w |-> w, f |-> f, q |-> Min(q, MaxQos)]}
         /\ UNCHANGED ret
         /\ Log([a |-> "sub", w |-> w, f |-> Join(f), q |-> q], [ok |-> TRUE, q |-> Min(q, MaxQos)])

Unsubscribe(w, f) ==
  /\ UNCHANGED ret
  /\ IF \E s \in subs : s.w = w /\ s.f = f
       THEN /\ subs' = {s \in subs : ~(s.w = w /\ s.f = f)}
            /\ Log([a |-> "unsub", w |-> w, f |-> Join(f)], [ok |-> TRUE, q |-> 0])
       ELSE /\ UNCHANGED subs
            /\ Log([a |-> "unsub", w |-> w, f |-> Join(f)], [ok |-> FALSE, q |-> 0])

\* Unsubscribe(f, nil): remove every subscriber of exactly that filter (client role);
\* succeeds whenever the filter's node exists; the replayer does not compare the error
UnsubscribeAll(f) ==
  /\ ValidFilter(f)
  /\ subs' = {s \in subs : s.f # f}
  /\ UNCHANGED ret
  /\ Log([a |-> "unsuball", f |-> Join(f)], [ok |-> TRUE, q |-> 0])

\* Retain: an empty payload (pl = "") clears exactly that topic
Retain(t, pl, q) ==
  /\ ret' = [ret EXCEPT ![t] = IF pl = "" THEN NoRet ELSE [has |-> TRUE, pl |-> pl, q |-> q]]
  /\ UNCHANGED subs
  /\ Log([a |-> "retain", t |-> Join(t), pl |-> pl, q |-> q], [ok |-> TRUE, q |-> 0])

Step ==
  \/ \E w \in Whos, f \in Filters, q \in QosReq : Subscribe(w, f, q)
  \/ \E w \in Whos, f \in Filters : Unsubscribe(w, f)
  \/ (WithNil /\ \E f \in Filters : UnsubscribeAll(f))
  \/ \E t \in Names, pl \in Payloads \cup {""}, q \in RetQos : Retain(t, pl, q)

\* in history mode the walk ends with one Finish step, so that the history is printed once
Finish == steps' = steps + 1 /\ UNCHANGED <<subs, ret, last, hist>>
Next == \/ (~Hist /\ Step)
        \/ (Hist /\ steps < MaxSteps /\ Step)
        \/ (Hist /\ steps = MaxSteps /\ Finish)
Spec == Init /\ [][Next]_vars

----------------------------------------------------------------------------
\* C06 as invariants / action properties of the design
OneEntryPerPair == \A s1, s2 \in subs : (s1.w = s2.w /\ s1.f = s2.f) => s1 = s2
OnlyValidStored == \A s \in subs : ValidFilter(s.f) /\ s.q \in 0..MaxQos
MatchIsUnion == \A t \in Names :
   Cardinality(MatchBag(subs, t, 2)) = Cardinality({s \in subs : Matches(s.f, t)})
SameRelation == \A f \in Filters : ValidFilter(f) =>
   {r.t : r \in RetainedSet(ret, f)} = {Join(t) : t \in {n \in Names : ret[n].has /\ Matches(f, n)}}
TypeOK == /\ OneEntryPerPair /\ OnlyValidStored /\ MatchIsUnion /\ SameRelation

\* re-subscribing never adds an entry; removing one subscription never disturbs another;
\* a rejected subscribe has no effect; retained store and subscription store are independent
StepProps ==
  [][ LET a == last'.a IN
      /\ (a.a = "sub" /\ last'.r.ok /\ (\E s \in subs : s.w = a.w /\ Join(s.f) = a.f)) => Cardinality(subs') = Cardinality(subs)
      /\ (a.a = "sub" /\ last'.r.ok) => \A s \in subs : ~(s.w = a.w /\ Join(s.f) = a.f) => s \in subs'
      /\ (a.a = "unsub") => (subs \ subs') \subseteq {s \in subs : s.w = a.w /\ Join(s.f) = a.f}
      /\ (a.a = "unsub") => Cardinality(subs \ subs') <= 1 /\ subs' \subseteq subs
      /\ (a.a = "sub" /\ ~last'.r.ok) => subs' = subs
      /\ (a.a \in {"sub", "unsub", "unsuball"}) => ret' = ret
      /\ (a.a = "retain") => subs' = subs /\ \A t \in Names : Join(t) # a.t => ret'[t] = ret[t]
    ]_vars

----------------------------------------------------------------------------
\* emission
AbsJson(S, R) == [subs |-> {[w |-> s.w, f |-> Join(s.f), q |-> s.q] : s \in S},
                  ret  |-> {[t |-> Join(t), pl |-> R[t].pl, q |-> R[t].q] : t \in {n \in Names : R[n].has}}]
AbsView == abs
\* a short canonical name of an abstract state (graph mode)
RECURSIVE SubsId(_, _)
SubsId(P, S) == IF P = {} THEN ""
                ELSE LET p == CHOOSE x \in P : TRUE
                         m == {s \in S : s.w = p[1] /\ s.f = p[2]}
                     IN (IF m = {} THEN "-" ELSE ToString((CHOOSE s \in m : TRUE).q)) \o SubsId(P \ {p}, S)
RECURSIVE RetId(_, _)
RetId(N, R) == IF N = {} THEN ""
               ELSE LET n == CHOOSE x \in N : TRUE
                    IN (IF R[n].has THEN R[n].pl \o ToString(R[n].q) ELSE "-") \o "," \o RetId(N \ {n}, R)
StateId(S, R) == SubsId(Whos \X Filters, S) \o "|" \o RetId(Names, R)
EmitState == PrintT(ToJson([S |-> StateId(subs, ret), A |-> AbsJson(subs, ret), P |-> Probe(subs, ret)]))
EmitEdge == PrintT(ToJson([s |-> StateId(subs, ret), a |-> last'.a, r |-> last'.r, t |-> StateId(subs', ret')]))
EmitHist == steps <= MaxSteps \/
   PrintT(ToJson([i \in 1..Len(hist) |-> [a |-> hist[i].a, r |-> hist[i].r, probe |-> Probe(hist[i].s, hist[i].rt)]]))
=============================================================================
