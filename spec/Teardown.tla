---------------------------- MODULE Teardown ----------------------------
(* Flow control, goroutine life cycles and teardown of connections (service/service.go stop,
   process.go processor, sendrecv.go receiver / sender, server.go Close), small-step and
   concurrent: the liveness fragment of the broker behind C16.

   Per connection: the client end (open / cut, reading or not), the two rings as bounded
   packet queues (InCap, OutCap), the three goroutines (rcv, prc, snd: run / exit), the
   processor's fan-out in progress (one delivery per subscriber, blocking while the target's
   ring is full and still open, failing when it is closed), the teardown progress stp
   (no -> join -> will -> done) and who runs it.  Packet contents are abstracted to
   {PUB, DISC}; every PUB fans out to SubsOf[c]; the will fans out inside the teardown.
   Server.Close begins the teardown of every connection before it waits for any of them
   (the design the code has since fix 009bdbe).

   The life-cycle skeleton of this module (goroutine states, stop phases, will) is the module
   `Life`: TLC checks that every step of Teardown is a step of Life or leaves Life's variables
   unchanged (`LifeRefined`), and recorded event traces of the real code are validated against
   Life (`LifeTrace`) - that is how this design-level module is tied to the code.

   TornDown: under weak fairness of every broker step, strong fairness of deliveries to a
   client that reads, and the environment assumption that a client that has stopped
   reading is eventually cut (the property's proviso), every connection that ended is
   eventually torn down completely; CloseReturns: after Server.Close every connection is. *)
EXTENDS Integers, Sequences, FiniteSets, TLC

CONSTANTS Conns, InCap, OutCap, MaxSend, SubsOf, WillOf

VARIABLES cl,        \* client end: "open" | "cut"
          reading,   \* client currently reads its socket
          sent,      \* packets the client has sent so far (bound)
          inq, outq, \* ring contents (packets)
          inDone, outDone,
          rcv, prc, snd,   \* goroutine states
          fan,       \* processor: remaining fan-out targets of the packet being handled (or <<>>)
          busy,      \* processor is handling the head of inq
          stp,       \* teardown progress
          stopper,   \* who runs stop: "none" | "prc" | "srv"
          wfan,      \* will fan-out targets left
          willOn, srvClosed,
          willed,    \* the teardown has handed the will to the fan-out
          discd      \* the processor has seen a DISCONNECT

vars == <<cl, reading, sent, inq, outq, inDone, outDone, rcv, prc, snd, fan, busy, stp, stopper, wfan, willOn, srvClosed, willed, discd>>

SetToSeq(S) == CHOOSE s \in [1..Cardinality(S) -> S] : \A i, j \in 1..Cardinality(S) : i # j => s[i] # s[j]

Init ==
  /\ cl = [c \in Conns |-> "open"] /\ reading = [c \in Conns |-> TRUE]
  /\ sent = [c \in Conns |-> 0]
  /\ inq = [c \in Conns |-> <<>>] /\ outq = [c \in Conns |-> <<>>]
  /\ inDone = [c \in Conns |-> FALSE] /\ outDone = [c \in Conns |-> FALSE]
  /\ rcv = [c \in Conns |-> "run"] /\ prc = [c \in Conns |-> "run"] /\ snd = [c \in Conns |-> "run"]
  /\ fan = [c \in Conns |-> <<>>] /\ busy = [c \in Conns |-> FALSE]
  /\ stp = [c \in Conns |-> "no"] /\ stopper = [c \in Conns |-> "none"]
  /\ wfan = [c \in Conns |-> <<>>]
  /\ willOn = [c \in Conns |-> WillOf[c]] /\ srvClosed = FALSE
  /\ willed = [c \in Conns |-> FALSE] /\ discd = [c \in Conns |-> FALSE]

---------------------------------------------------------------------------
(* environment *)
Send(c, k) ==   \* the receiver only reads the socket while the ring has room
  /\ cl[c] = "open" /\ rcv[c] = "run" /\ ~inDone[c] /\ Len(inq[c]) < InCap /\ sent[c] < MaxSend
  /\ inq' = [inq EXCEPT ![c] = Append(@, k)] /\ sent' = [sent EXCEPT ![c] = @ + 1]
  /\ UNCHANGED <<cl, reading, outq, inDone, outDone, rcv, prc, snd, fan, busy, stp, stopper, wfan, willOn, srvClosed, willed, discd>>

Recv(c) ==      \* sender goroutine hands the head of the out ring to a reading client
  /\ cl[c] = "open" /\ reading[c] /\ snd[c] = "run" /\ outq[c] # <<>>
  /\ outq' = [outq EXCEPT ![c] = Tail(@)]
  /\ UNCHANGED <<cl, reading, sent, inq, inDone, outDone, rcv, prc, snd, fan, busy, stp, stopper, wfan, willOn, srvClosed, willed, discd>>

StopReading(c) == /\ cl[c] = "open" /\ reading[c] /\ reading' = [reading EXCEPT ![c] = FALSE]
                  /\ UNCHANGED <<cl, sent, inq, outq, inDone, outDone, rcv, prc, snd, fan, busy, stp, stopper, wfan, willOn, srvClosed, willed, discd>>
Resume(c) ==      /\ FALSE /\ cl[c] = "open" /\ ~reading[c] /\ reading' = [reading EXCEPT ![c] = TRUE]
                  /\ UNCHANGED <<cl, sent, inq, outq, inDone, outDone, rcv, prc, snd, fan, busy, stp, stopper, wfan, willOn, srvClosed, willed, discd>>
Cut(c) ==         /\ cl[c] = "open" /\ cl' = [cl EXCEPT ![c] = "cut"]
                  /\ UNCHANGED <<reading, sent, inq, outq, inDone, outDone, rcv, prc, snd, fan, busy, stp, stopper, wfan, willOn, srvClosed, willed, discd>>
ServerClose ==    /\ ~srvClosed /\ srvClosed' = TRUE
                  /\ UNCHANGED <<cl, reading, sent, inq, outq, inDone, outDone, rcv, prc, snd, fan, busy, stp, stopper, wfan, willOn, willed, discd>>

---------------------------------------------------------------------------
(* receiver goroutine: exits on socket error (only seen while in conn.Read, i.e. ring has room)
   or when the in ring is closed; its deferred Close ends the in ring, and since fix 92588da it
   closes the out ring as well (nothing more will come from this connection: whoever waits for
   room in its out ring, holding its write lock, is released) *)
RcvExit(c) ==
  /\ rcv[c] = "run"
  /\ \/ (cl[c] = "cut" /\ Len(inq[c]) < InCap)
     \/ inDone[c]
  /\ rcv' = [rcv EXCEPT ![c] = "exit"] /\ inDone' = [inDone EXCEPT ![c] = TRUE]
  /\ outDone' = [outDone EXCEPT ![c] = TRUE]
  /\ UNCHANGED <<cl, reading, sent, inq, outq, prc, snd, fan, busy, stp, stopper, wfan, willOn, srvClosed, willed, discd>>

(* sender goroutine: write error when the client is gone and there is something to write;
   end-of-stream when the out ring is closed; deferred Close ends the out ring *)
SndExit(c) ==
  /\ snd[c] = "run"
  /\ \/ (cl[c] = "cut" /\ outq[c] # <<>>)
     \/ outDone[c]
  /\ snd' = [snd EXCEPT ![c] = "exit"] /\ outDone' = [outDone EXCEPT ![c] = TRUE]
  /\ UNCHANGED <<cl, reading, sent, inq, outq, inDone, rcv, prc, fan, busy, stp, stopper, wfan, willOn, srvClosed, willed, discd>>

(* processor *)
Take(c) ==
  /\ prc[c] = "run" /\ ~busy[c] /\ inq[c] # <<>>
  /\ busy' = [busy EXCEPT ![c] = TRUE]
  /\ fan' = [fan EXCEPT ![c] = IF Head(inq[c]) = "PUB" THEN SetToSeq(SubsOf[c]) ELSE <<>>]
  /\ willOn' = [willOn EXCEPT ![c] = IF Head(inq[c]) = "DISC" THEN FALSE ELSE @]
  /\ discd' = [discd EXCEPT ![c] = IF Head(inq[c]) = "DISC" THEN TRUE ELSE @]
  /\ UNCHANGED <<cl, reading, sent, inq, outq, inDone, outDone, rcv, prc, snd, stp, stopper, wfan, srvClosed, willed>>

\* deliver to the next target: blocks while its ring is full and still open
FanStep(c) ==
  /\ prc[c] = "run" /\ busy[c] /\ fan[c] # <<>>
  /\ LET s == Head(fan[c]) IN
       \/ /\ outDone[s] /\ UNCHANGED outq                       \* closed ring: error, skip
       \/ /\ ~outDone[s] /\ Len(outq[s]) < OutCap
          /\ outq' = [outq EXCEPT ![s] = Append(@, "PUB")]
  /\ fan' = [fan EXCEPT ![c] = Tail(@)]
  /\ UNCHANGED <<cl, reading, sent, inq, inDone, outDone, rcv, prc, snd, busy, stp, stopper, wfan, willOn, srvClosed, willed, discd>>

\* packet done: commit; a DISCONNECT makes the processor return
Commit(c) ==
  /\ prc[c] = "run" /\ busy[c] /\ fan[c] = <<>>
  /\ busy' = [busy EXCEPT ![c] = FALSE]
  /\ inq' = [inq EXCEPT ![c] = Tail(@)]
  /\ prc' = [prc EXCEPT ![c] = IF Head(inq[c]) = "DISC" THEN "exit" ELSE "run"]
  /\ UNCHANGED <<cl, reading, sent, outq, inDone, outDone, rcv, snd, fan, stp, stopper, wfan, willOn, srvClosed, willed, discd>>

\* nothing left to read and the ring is closed: processor returns
PrcEof(c) ==
  /\ prc[c] = "run" /\ ~busy[c] /\ inq[c] = <<>> /\ inDone[c]
  /\ prc' = [prc EXCEPT ![c] = "exit"]
  /\ UNCHANGED <<cl, reading, sent, inq, outq, inDone, outDone, rcv, snd, fan, busy, stp, stopper, wfan, willOn, srvClosed, willed, discd>>

---------------------------------------------------------------------------
(* teardown: started by the processor's deferred stop() or by Server.Close *)
StopBegin(c, who) ==
  /\ stp[c] = "no"
  /\ \/ (who = "prc" /\ prc[c] = "exit")
     \/ (who = "srv" /\ srvClosed)
  /\ stp' = [stp EXCEPT ![c] = "join"] /\ stopper' = [stopper EXCEPT ![c] = who]
  /\ cl' = [cl EXCEPT ![c] = "cut"]                              \* conn.Close()
  /\ inDone' = [inDone EXCEPT ![c] = TRUE] /\ outDone' = [outDone EXCEPT ![c] = TRUE]
  /\ UNCHANGED <<reading, sent, inq, outq, rcv, prc, snd, fan, busy, wfan, willOn, srvClosed, willed, discd>>

StopJoin(c) ==       \* wgStopped.Wait() returns
  /\ stp[c] = "join" /\ rcv[c] = "exit" /\ prc[c] = "exit" /\ snd[c] = "exit"
  /\ stp' = [stp EXCEPT ![c] = "joined"]
  /\ UNCHANGED <<cl, reading, sent, inq, outq, inDone, outDone, rcv, prc, snd, fan, busy, stopper, wfan, willOn, srvClosed, willed, discd>>

StopWillBegin(c) ==  \* the will flag is still set: the will is handed to the fan-out (hook event stop.will)
  /\ stp[c] = "joined" /\ willOn[c] /\ ~willed[c]
  /\ stp' = [stp EXCEPT ![c] = "will"] /\ willed' = [willed EXCEPT ![c] = TRUE]
  /\ wfan' = [wfan EXCEPT ![c] = SetToSeq(SubsOf[c])]
  /\ UNCHANGED <<cl, reading, sent, inq, outq, inDone, outDone, rcv, prc, snd, fan, busy, stopper, willOn, srvClosed, discd>>

StopWillStep(c) ==
  /\ stp[c] = "will" /\ wfan[c] # <<>>
  /\ LET s == Head(wfan[c]) IN
       \/ /\ outDone[s] /\ UNCHANGED outq
       \/ /\ ~outDone[s] /\ Len(outq[s]) < OutCap
          /\ outq' = [outq EXCEPT ![s] = Append(@, "WILL")]
  /\ wfan' = [wfan EXCEPT ![c] = Tail(@)]
  /\ UNCHANGED <<cl, reading, sent, inq, inDone, outDone, rcv, prc, snd, fan, busy, stp, stopper, willOn, srvClosed, willed, discd>>

StopDone(c) ==
  /\ \/ (stp[c] = "joined" /\ ~willOn[c])
     \/ (stp[c] = "will" /\ wfan[c] = <<>>)
  /\ stp' = [stp EXCEPT ![c] = "done"]
  /\ UNCHANGED <<cl, reading, sent, inq, outq, inDone, outDone, rcv, prc, snd, fan, busy, stopper, wfan, willOn, srvClosed, willed, discd>>

---------------------------------------------------------------------------
Broker(c) == RcvExit(c) \/ SndExit(c) \/ Take(c) \/ FanStep(c) \/ Commit(c) \/ PrcEof(c)
             \/ StopBegin(c, "prc") \/ StopBegin(c, "srv") \/ StopJoin(c) \/ StopWillBegin(c) \/ StopWillStep(c) \/ StopDone(c)
Env == \/ \E c \in Conns, k \in {"PUB", "DISC"} : Send(c, k)
       \/ \E c \in Conns : Recv(c) \/ StopReading(c) \/ Resume(c) \/ Cut(c)
       \/ ServerClose
Next == Env \/ \E c \in Conns : Broker(c)

\* every broker step is weakly fair; a client that reads keeps reading what is there; a client
\* that stopped reading eventually resumes or is cut (the property's proviso)
Fair == /\ \A c \in Conns : WF_vars(Broker(c))
        /\ \A c \in Conns : SF_vars(Recv(c))
        /\ \A c \in Conns : WF_vars(~reading[c] /\ (Resume(c) \/ Cut(c)))
Spec == Init /\ [][Next]_vars /\ Fair

Ended(c) == cl[c] = "cut" \/ prc[c] = "exit" \/ srvClosed
TornDown == \A c \in Conns : Ended(c) ~> stp[c] = "done"
CloseReturns == srvClosed ~> (\A c \in Conns : stp[c] = "done")
AtDone == \A c \in Conns : stp[c] = "done" => rcv[c] = "exit" /\ prc[c] = "exit" /\ snd[c] = "exit"

(* the life-cycle skeleton: every step of this module is a step of Life, or stutters on Life's variables *)
LStp == [c \in Conns |-> CASE stp[c] = "no" -> "no" [] stp[c] = "join" -> "begun" [] stp[c] \in {"joined", "will"} -> "joined" [] OTHER -> "done"]
L == INSTANCE Life WITH Conn <- Conns, stp <- LStp
LifeRefined == [][L!Next]_(L!lvars)
LifeInv == L!AtDone /\ L!WillDealtWith /\ L!NeverAfterDisconnect
=========================================================================
