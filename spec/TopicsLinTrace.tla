--------------------------- MODULE TopicsLinTrace ---------------------------
(* Linearizability of the topic store (topics/memtopics.go) under concurrent use.
   Several goroutines call Subscribe / Unsubscribe / Subscribers / Retain / Retained on one
   real store; a wrapper (in the harness, adding no lock of its own) logs a `call` event
   before and a `ret` event after every call.  The store is entered under a reader/writer
   lock in another package, so no single point can be hooked: the effect of a call is an
   UNLOGGED internal step Lin(id) of this trace specification, which TLC places somewhere
   between the call and the return.  The trace is accepted iff some placement makes every
   logged result the one the Topics specification computes at that point.               *)
EXTENDS MqttTopic, TLC, Json

Trace == ndJsonDeserialize("trace.ndjson")
VARIABLES subs,   \* set of [w, f, q]
          ret,    \* set of [t, pl, q]: at most one per topic
          pend,   \* calls in progress: id -> [op, w, f, q, pl, lin, err, res]
          l
vars == <<subs, ret, pend, l>>

Init == subs = {} /\ ret = {} /\ pend = <<>> /\ l = 1
Ev == Trace[l]

Key(w, q) == w \o "_" \o ToString(q)
\* result bag of a look-up, as a function key -> multiplicity
MatchBag(t, pq) ==
  LET hits == {s \in subs : Matches(s.f, t)}
      keys == {Key(s.w, Min(pq, s.q)) : s \in hits}
  IN [k \in keys |-> Cardinality({s \in hits : Key(s.w, Min(pq, s.q)) = k})]
RetBag(f) ==
  LET hits == {r \in ret : Matches(f, r.t)}
      keys == {Key(r.pl, r.q) : r \in hits}
  IN [k \in keys |-> Cardinality({r \in hits : Key(r.pl, r.q) = k})]

Call == /\ l <= Len(Trace) /\ Ev.ev = "call"
        /\ pend' = pend @@ (Ev.id :> [op |-> Ev.op, w |-> Ev.w, f |-> Ev.f, q |-> Ev.q, pl |-> Ev.pl,
                                      lin |-> FALSE, err |-> FALSE, res |-> <<>>])
        /\ l' = l + 1 /\ UNCHANGED <<subs, ret>>

\* the unlogged linearization point of a pending call: the corresponding Topics action
Lin(id) ==
  /\ ~pend[id].lin
  /\ LET c == pend[id] IN
       \/ /\ c.op = "sub"
          /\ subs' = {s \in subs : ~(s.w = c.w /\ s.f = c.f)} \cup {[w |-> c.w, f |-> c.f, q |-> c.q]}
          /\ pend' = [pend EXCEPT ![id].lin = TRUE] /\ UNCHANGED ret
       \/ /\ c.op = "unsub"
          /\ LET present == \E s \in subs : s.w = c.w /\ s.f = c.f IN
               /\ subs' = {s \in subs : ~(s.w = c.w /\ s.f = c.f)}
               /\ pend' = [pend EXCEPT ![id].lin = TRUE, ![id].err = ~present]
          /\ UNCHANGED ret
       \/ /\ c.op = "match"
          /\ pend' = [pend EXCEPT ![id].lin = TRUE, ![id].res = MatchBag(c.f, c.q)]
          /\ UNCHANGED <<subs, ret>>
       \/ /\ c.op = "retain"
          /\ ret' = {r \in ret : r.t # c.f} \cup (IF c.pl = "" THEN {} ELSE {[t |-> c.f, pl |-> c.pl, q |-> c.q]})
          /\ pend' = [pend EXCEPT ![id].lin = TRUE] /\ UNCHANGED subs
       \/ /\ c.op = "retained"
          /\ pend' = [pend EXCEPT ![id].lin = TRUE, ![id].res = RetBag(c.f)]
          /\ UNCHANGED <<subs, ret>>
  /\ UNCHANGED l

Ret == /\ l <= Len(Trace) /\ Ev.ev = "ret"
       /\ Ev.id \in DOMAIN pend /\ pend[Ev.id].lin
       /\ (pend[Ev.id].op \in {"sub", "unsub"}) => pend[Ev.id].err = Ev.err
       /\ (pend[Ev.id].op \in {"match", "retained"}) =>
             (DOMAIN pend[Ev.id].res = DOMAIN Ev.res /\ \A k \in DOMAIN Ev.res : pend[Ev.id].res[k] = Ev.res[k])
       /\ pend' = [i \in DOMAIN pend \ {Ev.id} |-> pend[i]]
       /\ l' = l + 1 /\ UNCHANGED <<subs, ret>>

Reset == /\ l <= Len(Trace) /\ Ev.ev = "reset"
         /\ subs' = {} /\ ret' = {} /\ pend' = <<>> /\ l' = l + 1

Next == Call \/ Ret \/ Reset \/ \E id \in DOMAIN pend : Lin(id)
Spec == Init /\ [][Next]_vars

\* acceptance: the highest trace position reached by any explored state (silent Lin steps exist,
\* so the search depth is not the trace length); needs -workers 1
HighWater == TLCSet(1, IF TLCGet(1) > l THEN TLCGet(1) ELSE l)
Accepted == \/ TLCGet(1) = Len(Trace) + 1
            \/ (PrintT(ToJson([highwater |-> TLCGet(1)])) /\ FALSE)
ASSUME TLCSet(1, 0)
=============================================================================
