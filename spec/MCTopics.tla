---- MODULE MCTopics ----
EXTENDS Topics
\* graph configuration "subs": overlapping filters, two subscribers, no retained traffic
GFilters == {<<"a">>, <<"a","b">>, <<"a","#">>, <<"+">>}
GFilters3 == {<<"a">>, <<"a","b">>, <<"a","#">>}
GNames == {<<"a">>, <<"a","b">>, <<"b">>}
\* graph configuration "multi": three subscribers on the same filters with all QoS levels
MFilters == {<<"a","+">>, <<"a","b">>}
MNames == {<<"a","b">>, <<"a","c">>}
\* graph configuration "ret": retained store on parent / child / sibling, one wildcard subscriber
RFilters == {<<"a">>, <<"a","+">>, <<"#">>, <<"a","b">>}
RNames == {<<"a">>, <<"a","b">>, <<"a","c">>}
\* simulation configuration: larger vocabulary, invalid filters included
SFilters == {<<"a","b">>, <<"a","+">>, <<"a","#">>, <<"#">>, <<"+","b">>, <<"a">>, <<"+","+">>, <<"a","b","c">>,
             <<"b","#">>, <<"+","b","#">>, <<"a","#","b">>, <<"a+">>, <<"b","#c">>}
SNames == {<<"a","b">>, <<"a">>, <<"a","b","c">>, <<"c">>, <<"b">>, <<"b","b">>, <<"a","c">>, <<"b","b","c">>}
SMixed == {"a+", "#c"}
\* dedicated empty-level configuration (known finding DevEmptyLevel)
EFilters == {<<"a","">>, <<"a">>, <<"","a">>, <<"+","a">>}
ENames == {<<"a">>, <<"a","">>, <<"","a">>, <<"b","a">>}
====
