--------------------------- MODULE AckQueueTrace ---------------------------
(* Direction B for C13: a log of calls made by seeded random drivers on real
   sessions.Ackqueue objects (hundreds of requests in flight, so that the ring grows
   several times, also while wrapped) must be a behaviour of AckQueue.  Every event is
   one public call with its arguments and its result; the trace specification reuses
   the actions of AckQueue and binds the logged result to the one the action computes. *)
EXTENDS AckQueue

Trace == ndJsonDeserialize("trace.ndjson")

VARIABLES l, maxgrown
tvars == <<vars, l, maxgrown>>

TraceInit == Init /\ l = 1 /\ maxgrown = [n |-> 0, wrapped |-> 0, inflight |-> 0]

Ev == Trace[l]

TReset == /\ Ev.a = "reset"
          /\ q' = <<>> /\ ping' = NoPing /\ size' = InitSize /\ head' = 0 /\ tail' = 0
          /\ grown' = [n |-> 0, wrapped |-> 0]
          /\ UNCHANGED <<last, steps, hist>>

TWait == /\ Ev.a = "wait"
         /\ \/ (Ev.kind \in Kinds /\ Wait(Ev.kind, Ev.id, Ev.c))
            \/ (Ev.kind = "ping" /\ WaitPing(Ev.c))
            \/ (Ev.kind \in {"pub0", "bad"} /\ WaitRefused(Ev.kind))
         /\ last'.r.ok = Ev.ok

TAck == /\ Ev.a = "ack"
        /\ \/ (Ev.ty \in AckTypes /\ Ack(Ev.ty, Ev.id, Ev.c))
           \/ (Ev.ty = "PINGRESP" /\ AckPing)
           \/ (Ev.ty = "PUBLISH" /\ AckRefused)
        /\ last'.r.ok = Ev.ok

\* the list the real queue handed back must be exactly the one the specification releases
TAcked == /\ Ev.a = "acked"
          /\ Acked
          /\ Len(last'.r.out) = Len(Ev.out)
          /\ \A i \in 1..Len(Ev.out) :
                LET o == last'.r.out[i] e == Ev.out[i] IN
                  /\ o.id = e.id /\ o.kind = e.kind /\ o.c = e.c /\ o.state = e.state
                  /\ (o.state = "SUBACK" => o.ac = e.ac)

TraceNext ==
  /\ l <= Len(Trace) /\ l' = l + 1
  /\ TReset \/ TWait \/ TAck \/ TAcked
  /\ maxgrown' = [n |-> IF grown'.n > maxgrown.n THEN grown'.n ELSE maxgrown.n,
                  wrapped |-> IF grown'.wrapped > maxgrown.wrapped THEN grown'.wrapped ELSE maxgrown.wrapped,
                  inflight |-> IF Len(q') > maxgrown.inflight THEN Len(q') ELSE maxgrown.inflight]

TraceSpec == TraceInit /\ [][TraceNext]_tvars

\* every event consumed: the search depth equals the trace length (+1 for the initial state)
Accepted == TLCGet("stats").diameter - 1 = Len(Trace)
\* coverage report of the trace set (vacuity guard): printed once at the end
Report == l <= Len(Trace) \/ PrintT(ToJson([report |-> maxgrown, events |-> Len(Trace)]))
=============================================================================
