------------------------------- MODULE Faults -------------------------------
(* Fault sequences for C05 and C16: what the environment does to a broker with a
   publisher P, a subscriber S (subscribed to P's topic; in the cross configuration
   P is also subscribed to S's topic), an attacker A and a witness pair (W1 publishes,
   W2 is subscribed).  The sequences are enumerated by TLC (all paths up to MaxSteps)
   and executed on a real broker with 16 KiB rings.

   The module predicts, per step, what must be observable:
     free     no still-open connection has stopped reading: a connection that ends now
              must be torn down completely in bounded time (C16's proviso is met)
     gone     the connection must be closed by the broker after this step (malformed or
              oversized input: only the offender is affected, C05)
   and at the end of every sequence the replayer cuts what is left in the order `rest`,
   calls Server.Close and requires: every teardown finished, Close returned, no goroutine
   of the library left, no subscription and no clean session left (the witness publisher connects without a client
   identifier: the session the broker named for it included), the witness pair saw
   exactly its own traffic.                                                            *)
EXTENDS Integers, Sequences, FiniteSets, TLC, Json

CONSTANTS Cross,       \* P and S subscribed to each other (cross-blocked pairs)
          SelfSub,     \* P is subscribed to its own topic (its own outgoing ring fills when it stops reading)
          WithAttacker, MaxSteps,
          WillKind     \* "none" | "small" | "mid" | "big": P and S connect with a will on a topic the witness subscriber holds;
                       \* "mid": longer than anything a client can publish through a ring (ring minus a read block), shorter than a ring;
                       \* "big": larger than a ring (it arrives in the CONNECT, not through the ring), so it can be
                       \* delivered to nobody - the connection must be torn down all the same and nobody else may suffer

Clients == {"P", "S"} \cup (IF WithAttacker THEN {"A"} ELSE {})
VARIABLES st,          \* client -> "new" | "up" | "gone"
          reading,     \* client -> BOOLEAN
          pending,     \* client -> "none" | "bad" | "disconnect": an ending packet pipelined while the client does not read
          closedSrv, steps, hist
vars == <<st, reading, pending, closedSrv, steps, hist>>

Init == /\ st = [c \in Clients |-> IF c = "A" THEN "new" ELSE "up"]
        /\ reading = [c \in Clients |-> TRUE] /\ pending = [c \in Clients |-> "none"]
        /\ closedSrv = FALSE /\ steps = 0 /\ hist = <<>>

FreeOf(s, rd) == \A c \in Clients : s[c] = "up" => rd[c]
Free(s) == FreeOf(s, reading)
\* gone is only predicted when the proviso holds before the step: a packet of a connection whose
\* processor is parked on somebody's full ring is not even looked at
\* will: what this step means for the will of connection c: "due" it ended without DISCONNECT (the will is published once
\* the teardown is complete), "never" it ended with DISCONNECT (its will is never published), "-" nothing
WillOf(a) == IF WillKind = "none" THEN "-" ELSE IF a \in {"cut", "bad", "over", "edge", "ping-halfclose"} THEN "due" ELSE IF a = "disconnect" THEN "never" ELSE "-"
Log(a, c, gone) == /\ steps' = steps + 1
                   /\ hist' = Append(hist, [a |-> a, c |-> c, gone |-> (gone /\ Free(st)), free |-> FreeOf(st', reading'), cross |-> Cross, selfsub |-> SelfSub,
                                             wk |-> WillKind, will |-> WillOf(a)])

\* a burst of big QoS 0 publishes (more than the subscriber's ring holds)
Burst(c) == /\ c \in {"P", "S"} /\ st[c] = "up" /\ (c = "S" => Cross) /\ ~closedSrv
            /\ UNCHANGED <<st, reading, pending, closedSrv>> /\ Log("burst", c, FALSE)
StopReading(c) == /\ c \in {"P", "S"} /\ st[c] = "up" /\ reading[c] /\ ~closedSrv
                  /\ reading' = [reading EXCEPT ![c] = FALSE]
                  /\ UNCHANGED <<st, pending, closedSrv>> /\ Log("stopreading", c, FALSE)
\* ways a connection ends; the broker closes it itself after malformed or oversized input
\* ("over": far beyond what a ring takes; "edge": one fixed header beyond it - remaining length = ring minus a read block -
\*  of which all but the last two bytes arrive, then the client cuts the connection: a broker that takes such a packet and
\*  waits for the rest with a ring too full to read on does not notice the end of the connection.  Whether the broker
\*  refuses the packet is its choice; the connection ends like a cut one;
\*  "ping-halfclose": the client sends a PINGREQ and shuts down its sending direction only - the broker reads the end of
\*  the stream while the client, reading or not, keeps the other direction open: with the client's ring full and its
\*  processor busy with the PINGREQ's answer nothing but the end of the incoming stream tells the broker that it is over)
End(c, how) == /\ c \in {"P", "S"} /\ st[c] = "up" /\ ~closedSrv
               /\ (how \in {"disconnect", "bad", "over", "edge"} => reading[c])
               \* a half-closed client that does not read is itself a still-open connection that has stopped reading: when it
               \* is subscribed to its own topic, the deliveries it holds up are its own (C16's proviso is not met: its
               \* processor is parked on its own ring, its receiver on the full incoming ring, outside any read - the
               \* situation of the known finding stalled-receiver of C19)
               /\ (how = "ping-halfclose" /\ ~reading[c] => ~(SelfSub /\ c = "P"))
               /\ st' = [st EXCEPT ![c] = "gone"]
               /\ UNCHANGED <<reading, pending, closedSrv>> /\ Log(how, c, how \in {"bad", "over", "disconnect"})
\* the attacker: garbage before CONNECT, or a valid CONNECT followed by garbage, each optionally cut short
Attack(kind) == /\ WithAttacker /\ st["A"] = "new" /\ ~closedSrv
                /\ st' = [st EXCEPT !["A"] = "gone"]
                /\ UNCHANGED <<reading, pending, closedSrv>> /\ Log(kind, "A", TRUE)
ServerClose == /\ ~closedSrv /\ closedSrv' = TRUE
               /\ st' = [c \in Clients |-> "gone"]
               /\ UNCHANGED <<reading, pending>> /\ Log("serverclose", "-", FALSE)

\* a client that does not read pipelines an ending packet with more data behind it; when it reads again the
\* processor reaches that packet and ends the connection on its own, whatever state the rings are in
Pipeline(c, how) == /\ c = "P" /\ SelfSub /\ st[c] = "up" /\ ~reading[c] /\ pending[c] = "none" /\ ~closedSrv
                    /\ pending' = [pending EXCEPT ![c] = how]
                    /\ UNCHANGED <<st, reading, closedSrv>> /\ Log("pipeline-" \o how, c, FALSE)
\* the same with a SUBSCRIBE: it does not end the connection, but however the connection ends afterwards, the
\* subscription must be gone with it (also when its SUBACK could never be written)
PipelineSub(c) == /\ c \in {"P", "S"} /\ st[c] = "up" /\ ~reading[c] /\ pending[c] = "none" /\ ~closedSrv
                  /\ UNCHANGED <<st, reading, pending, closedSrv>> /\ Log("pipeline-subscribe", c, FALSE)
Resume(c) == /\ c \in {"P", "S"} /\ st[c] = "up" /\ ~reading[c] /\ ~closedSrv
             \* the pipelined ending packet is only reached for sure if nobody else holds up c's deliveries
             /\ (pending[c] # "none" => \A d \in Clients \ {c} : st[d] = "up" => reading[d])
             /\ reading' = [reading EXCEPT ![c] = TRUE]
             /\ st' = IF pending[c] # "none" THEN [st EXCEPT ![c] = "gone"] ELSE st
             /\ UNCHANGED <<pending, closedSrv>>
             /\ steps' = steps + 1
             /\ hist' = Append(hist, [a |-> "resume", c |-> c, gone |-> pending[c] # "none", free |-> FreeOf(st', reading'), cross |-> Cross, selfsub |-> SelfSub,
                                       wk |-> WillKind, will |-> IF WillKind = "none" THEN "-" ELSE IF pending[c] = "bad" THEN "due" ELSE IF pending[c] = "disconnect" THEN "never" ELSE "-"])

AttackKinds == {"pre-garbage", "pre-truncated-connect", "pre-cut-in-header", "pre-cut-in-body", "pre-huge-remlen", "pre-remlen-five-bytes",
                "post-truncated-publish", "post-garbage", "post-huge-remlen", "post-cut-mid-packet", "post-bad-flags",
                "post-second-connect", "post-zero-length-topic",
                \* well-formed packets the broker refuses in part: a SUBSCRIBE with a filter it rejects (answered with 0x80),
                \* an UNSUBSCRIBE of a filter nobody has - whatever the offender gets, the others go on being served
                "post-refused-filter", "post-unsubscribe-unknown"}
Next == steps < MaxSteps /\
        \/ \E c \in {"P", "S"} : Burst(c) \/ StopReading(c)
        \/ \E c \in {"P", "S"}, how \in {"cut", "disconnect", "bad", "over", "edge", "ping-halfclose"} : End(c, how)
        \/ \E how \in {"bad", "disconnect"} : Pipeline("P", how)
        \/ \E c \in {"P", "S"} : PipelineSub(c)
        \/ \E c \in {"P", "S"} : Resume(c)
        \/ \E k \in AttackKinds : Attack(k)
        \/ ServerClose
Spec == Init /\ [][Next]_vars

\* the order in which the replayer cuts what is still open at the end: both orders are generated
Emit == steps < 1 \/ (\A r \in {<<"P", "S">>, <<"S", "P">>} : PrintT(ToJson([h |-> hist, rest |-> r])))
EmitFull == (steps < MaxSteps /\ ~closedSrv) \/ (\A r \in {<<"P", "S">>, <<"S", "P">>} : PrintT(ToJson([h |-> hist, rest |-> r])))
TypeOK == closedSrv => \A c \in Clients : st[c] = "gone"
=============================================================================
