------------------------------ MODULE TopicRel ------------------------------
(* C06 part 1: the complete filter/name relation over a small level alphabet.
   One initial state per filter; the row printed for it is the prediction the
   replayer checks against a fresh topics.MemTopics holding just that filter:
   validity, the set of names it must match (subscriber lookup and retained
   lookup use the same relation), and the match set under the named deviation. *)
EXTENDS MqttTopic, TLC, Json

CONSTANTS Alpha, NameAlpha, MaxLen

Filters == SeqsUpTo(Alpha, MaxLen)
Names == {t \in SeqsUpTo(NameAlpha, MaxLen) : ValidName(t)}

VARIABLE row
Init == \E f \in Filters :
          row = [f |-> f, valid |-> ValidFilter(f),
                 m    |-> {t \in Names : ValidFilter(f) /\ Matches(f, t)},
                 mdev |-> {t \in Names : ValidFilter(f) /\ DevMatches(f, t)},
                 cls  |-> HasEmptyLevel(f)]
Next == UNCHANGED row
Spec == Init /\ [][Next]_row

\* algebraic sanity of the relation itself (checked by TLC on every row)
RelOK ==
  /\ row.valid => \A t \in row.m : Len(t) >= Len(row.f) - 1
  /\ (row.valid /\ row.f[Len(row.f)] # "#") => \A t \in row.m : Len(t) = Len(row.f)
  /\ (row.valid /\ \A i \in 1..Len(row.f) : row.f[i] \notin {"+", "#"}) => row.m = {row.f} \cap Names
  /\ (~row.cls) => \A t \in Names : ~HasEmptyLevel(t) => ((t \in row.m) <=> (t \in row.mdev))
Emit == PrintT(ToJson(row))
NamesEmit == PrintT(ToJson([names |-> Names]))
=============================================================================
