------------------------------- MODULE Life -------------------------------
(* The life cycle of one connection's `service` object (service/service.go start / stop,
   process.go processor, sendrecv.go receiver / sender), reduced to what the properties say
   about its end (C16: goroutines exit, the will is dealt with; C09: the will goes out exactly
   when the connection ends without DISCONNECT).  It is the skeleton that `Teardown` refines
   (Teardown adds rings, fan-out and blocking and proves the leads-to properties; TLC checks
   `Teardown => Life!Spec`) and the specification recorded event traces of the real code are
   validated against (`LifeTrace`): one action per hook event.

   Deliberately NOT fixed here, because no property fixes it: who calls stop() (processor on its
   way out, Server.Close, Client.Disconnect), the order in which the two rings are closed, the
   order of the bookkeeping steps after the join (subscriptions, session store) - the benign
   change r14 reorders those.                                                                *)
EXTENDS Integers, FiniteSets

CONSTANT Conn

VARIABLES rcv, prc, snd,   \* goroutines: "none" (not started) | "run" | "exit"
          stp,             \* teardown: "no" | "begun" | "joined" | "done"
          willOn,          \* will flag of the stored CONNECT (cleared by a DISCONNECT packet)
          willed,          \* the teardown has started publishing the will
          discd            \* the processor has seen a DISCONNECT packet

lvars == <<rcv, prc, snd, stp, willOn, willed, discd>>

Init == /\ rcv = [c \in Conn |-> "none"] /\ prc = [c \in Conn |-> "none"] /\ snd = [c \in Conn |-> "none"]
        /\ stp = [c \in Conn |-> "no"]
        /\ willOn = [c \in Conn |-> FALSE] /\ willed = [c \in Conn |-> FALSE] /\ discd = [c \in Conn |-> FALSE]

\* service.start(): the three goroutines are launched; w = will flag of the CONNECT of THIS connection
Start(c, w) ==
  /\ rcv[c] = "none" /\ prc[c] = "none" /\ snd[c] = "none" /\ stp[c] = "no"
  /\ rcv' = [rcv EXCEPT ![c] = "run"] /\ prc' = [prc EXCEPT ![c] = "run"] /\ snd' = [snd EXCEPT ![c] = "run"]
  /\ willOn' = [willOn EXCEPT ![c] = w]
  /\ UNCHANGED <<stp, willed, discd>>

RcvExit(c) == /\ rcv[c] = "run" /\ rcv' = [rcv EXCEPT ![c] = "exit"] /\ UNCHANGED <<prc, snd, stp, willOn, willed, discd>>
SndExit(c) == /\ snd[c] = "run" /\ snd' = [snd EXCEPT ![c] = "exit"] /\ UNCHANGED <<rcv, prc, stp, willOn, willed, discd>>
PrcExit(c) == /\ prc[c] = "run" /\ prc' = [prc EXCEPT ![c] = "exit"] /\ UNCHANGED <<rcv, snd, stp, willOn, willed, discd>>

\* the processor handles a packet (only a running processor does)
Proc(c) == prc[c] = "run" /\ UNCHANGED lvars
\* ... a DISCONNECT packet: the will is off from now on
Disc(c) == /\ prc[c] = "run"
           /\ willOn' = [willOn EXCEPT ![c] = FALSE] /\ discd' = [discd EXCEPT ![c] = TRUE]
           /\ UNCHANGED <<rcv, prc, snd, stp, willed>>

\* stop(): the call that wins the compare-and-swap
Begin(c) == /\ stp[c] = "no" /\ stp' = [stp EXCEPT ![c] = "begun"] /\ UNCHANGED <<rcv, prc, snd, willOn, willed, discd>>
\* wgStopped.Wait() has returned: nothing of the connection runs any more
Join(c) == /\ stp[c] = "begun"
           /\ rcv[c] # "run" /\ prc[c] # "run" /\ snd[c] # "run"
           /\ stp' = [stp EXCEPT ![c] = "joined"] /\ UNCHANGED <<rcv, prc, snd, willOn, willed, discd>>
\* the will is handed to the fan-out, once, by the teardown, after the join (so a DISCONNECT has been seen if there was one)
Will(c) == /\ stp[c] = "joined" /\ willOn[c] /\ ~willed[c]
           /\ willed' = [willed EXCEPT ![c] = TRUE] /\ UNCHANGED <<rcv, prc, snd, stp, willOn, discd>>
\* stop() returns: the will has been dealt with
Done(c) == /\ stp[c] = "joined" /\ (willOn[c] => willed[c])
           /\ stp' = [stp EXCEPT ![c] = "done"] /\ UNCHANGED <<rcv, prc, snd, willOn, willed, discd>>

Next == \E c \in Conn : \/ \E w \in BOOLEAN : Start(c, w)
                        \/ RcvExit(c) \/ SndExit(c) \/ PrcExit(c) \/ Proc(c) \/ Disc(c)
                        \/ Begin(c) \/ Join(c) \/ Will(c) \/ Done(c)
Spec == Init /\ [][Next]_lvars

---------------------------------------------------------------------------
TypeOK == /\ \A c \in Conn : rcv[c] \in {"none", "run", "exit"} /\ prc[c] \in {"none", "run", "exit"} /\ snd[c] \in {"none", "run", "exit"}
          /\ \A c \in Conn : stp[c] \in {"no", "begun", "joined", "done"}
\* C16: a finished teardown means that the goroutines are gone ...
AtDone == \A c \in Conn : stp[c] \in {"joined", "done"} => rcv[c] # "run" /\ prc[c] # "run" /\ snd[c] # "run"
\* ... and that the will has been dealt with (C09: exactly when the connection did not end with DISCONNECT)
WillDealtWith == \A c \in Conn : stp[c] = "done" => (willed[c] <=> willOn[c])
NeverAfterDisconnect == \A c \in Conn : willed[c] => ~discd[c]
\* nothing of a connection moves after its teardown finished
DoneIsFinal == [][\A c \in Conn : stp[c] = "done" => UNCHANGED <<rcv[c], prc[c], snd[c], stp[c], willOn[c], willed[c], discd[c]>>]_lvars
=============================================================================
