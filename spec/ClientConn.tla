----------------------------- MODULE ClientConn -----------------------------
(* Client.Connect over histories (C20, first sentence): an application connects, is refused, is dropped by the server or
   disconnects, and connects again - in one process, with the same client identifier.  The result of a Connect is a
   function of the server's answer alone (nil exactly for CONNACK code 0, otherwise the refusal code or an error), whatever
   happened before; and whenever no connection of the client is up, nothing of the library is left (no goroutine, and no
   entry under the client identifier that would keep the next Connect from succeeding).

   TLC enumerates every history up to MaxSteps; the replayer plays the server (a scripted TCP peer) and calls the real
   Client.                                                                                                        *)
EXTENDS Integers, Sequences, TLC, Json
CONSTANT MaxSteps

Answers == {"code0", "code0-sp", "code4", "malformed-code9", "closed"}
Endings == {"disconnect",      \* the application calls Client.Disconnect
            "serverdrop"}      \* the server closes the connection; the application does nothing
Result(a) == IF a \in {"code0", "code0-sp"} THEN "ok" ELSE IF a = "code4" THEN "code4" ELSE "error"

VARIABLES up,        \* a connection of the client is established
          left,      \* what the library still holds for the client while no connection is up (must be nothing)
          steps, hist
vars == <<up, left, steps, hist>>

Init == up = FALSE /\ left = 0 /\ steps = 0 /\ hist = <<>>
Connect(a) == /\ ~up /\ steps < MaxSteps
              /\ up' = (Result(a) = "ok") /\ left' = 0
              /\ steps' = steps + 1
              /\ hist' = Append(hist, [a |-> "connect", answer |-> a, want |-> Result(a)])
End(e) == /\ up /\ steps < MaxSteps
          /\ up' = FALSE /\ left' = 0
          /\ steps' = steps + 1
          /\ hist' = Append(hist, [a |-> e, answer |-> "", want |-> ""])
Next == (\E a \in Answers : Connect(a)) \/ (\E e \in Endings : End(e))
Spec == Init /\ [][Next]_vars

NothingLeft == ~up => left = 0
\* the result depends on the answer only
ResultByAnswer == \A i \in 1..Len(hist) : hist[i].a = "connect" => hist[i].want = Result(hist[i].answer)
EmitFull == steps < MaxSteps \/ PrintT(ToJson(hist))
=============================================================================
