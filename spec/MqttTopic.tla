----------------------------- MODULE MqttTopic -----------------------------
(* MQTT 3.1.1 section 4.7: topic names and topic filters as sequences of levels.
   A topic name or filter "a/b" is the sequence <<"a","b">>; "/a" is <<"","a">>,
   "a/" is <<"a","">>, "/" is <<"","">>.  The zero-length string is <<"">>.
   Level strings that mix a wildcard character with other characters are modelled
   by the constant set MixedLevels (e.g. "a+", "#b").                          *)
EXTENDS Integers, Sequences, FiniteSets

CONSTANT MixedLevels

Min(a, b) == IF a < b THEN a ELSE b

\* [MQTT-4.7.3-1] at least one character; [MQTT-4.7.1-2] '#' last and alone in its level;
\* [MQTT-4.7.1-3] '+' alone in its level.
ValidFilter(f) ==
  /\ Len(f) >= 1
  /\ f # <<"">>
  /\ \A i \in 1..Len(f) : /\ f[i] \notin MixedLevels
                          /\ (f[i] = "#" => i = Len(f))

\* [MQTT-4.7.3-1], [MQTT-4.7.1-1]: a topic name has no wildcard characters.
ValidName(t) ==
  /\ Len(t) >= 1
  /\ t # <<"">>
  /\ \A i \in 1..Len(t) : t[i] \notin MixedLevels /\ t[i] # "#" /\ t[i] # "+"

\* 4.7.1.2: "sport/#" also matches the singular "sport": '#' matches the remaining
\* levels including none.  4.7.1.3: '+' matches exactly one level (also the empty one).
RECURSIVE Matches(_, _)
Matches(f, t) ==
  IF f = <<>> THEN t = <<>>
  ELSE IF Head(f) = "#" THEN TRUE
  ELSE IF t = <<>> THEN FALSE
  ELSE (Head(f) = "+" \/ Head(f) = Head(t)) /\ Matches(Tail(f), Tail(t))

(* Named deviation DevEmptyLevel: the implementation's level splitter
   (topics/memtopics.go nextTopicLevel) returns "+" for an empty level that is
   followed by a separator and drops a trailing empty level.  Used only to
   recognise that one known finding; no claim is checked with it.              *)
RECURSIVE ImplLevels(_)
ImplLevels(x) ==
  IF x = <<>> THEN <<>>
  ELSE IF Len(x) = 1 THEN (IF x[1] = "" THEN <<>> ELSE x)
  ELSE <<IF x[1] = "" THEN "+" ELSE x[1]>> \o ImplLevels(Tail(x))

HasEmptyLevel(x) == \E i \in 1..Len(x) : x[i] = ""

DevMatches(f, t) == Matches(ImplLevels(f), ImplLevels(t))

SeqsUpTo(S, n) == UNION {[1..k -> S] : k \in 1..n}
=============================================================================
